use bump_scope::{Bump, settings::BumpSettings};
fn main() {
    // MIN_ALIGN = 4
    let mut bump: Bump<bump_scope::alloc::Global, BumpSettings<4>> = Bump::new();
    {
        let scope = bump.as_mut_scope();
        let mut child = scope.by_value();
        child.aligned::<1, _>(|b| {
            b.alloc(1u8); // position in chunk 1 is now odd
            b.alloc_uninit_slice::<u8>(4000); // does not fit: a new chunk becomes current for `child`
        });
    }
    // parent still uses chunk 1, whose position was never re-aligned
    let pos = bump.stats().current_chunk().unwrap().bump_position().as_ptr() as usize;
    println!("position % 4 = {}", pos % 4);
    let x = bump.alloc(7u32);
    let addr = &*x as *const u32 as usize;
    println!("u32 at {addr:#x}, addr % 4 = {}", addr % 4);
    assert_eq!(addr % 4, 0, "misaligned &u32 from safe code");
}
