use bump_scope::{Bump, BumpVec, MutBumpVec};
use std::sync::atomic::{AtomicIsize, Ordering::SeqCst};
static LIVE: AtomicIsize = AtomicIsize::new(0);
struct Z;
impl Z { fn new() -> Z { LIVE.fetch_add(1, SeqCst); Z } }
impl Drop for Z { fn drop(&mut self) { LIVE.fetch_sub(1, SeqCst); } }
fn main() {
    let mut bump: Bump = Bump::new();
    {
        let mut v = MutBumpVec::new_in(&mut bump);
        for _ in 0..7 { v.push(Z::new()); }
        drop(v.drain(..));
        println!("MutBumpVec: len after drain {} live {}", v.len(), LIVE.load(SeqCst));
    }
    println!("MutBumpVec: live after drop {}", LIVE.load(SeqCst));
    {
        let mut v = BumpVec::new_in(&bump);
        for _ in 0..7 { v.push(Z::new()); }
        drop(v.drain(..));
        println!("BumpVec: len after drain {} live {}", v.len(), LIVE.load(SeqCst));
    }
    println!("BumpVec: live after drop {}", LIVE.load(SeqCst));
    {
        let mut v = BumpVec::new_in(&bump);
        for _ in 0..7 { v.push(Z::new()); }
        drop(v.drain(2..4));
        println!("BumpVec: len after drain(2..4) {} live {}", v.len(), LIVE.load(SeqCst));
    }
    println!("BumpVec: live after drop {}", LIVE.load(SeqCst));
}
