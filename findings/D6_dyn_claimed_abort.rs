// C14 / C07: a panicking method on a claimed allocator must unwind ("bump allocator is claimed"),
// also when it is reached through a trait object. Before the fix this aborted the process via
// handle_alloc_error ("memory allocation of 4 bytes failed").
use bump_scope::{Bump, traits::{BumpAllocatorCoreScope, BumpAllocatorTypedScope, BumpAllocatorTyped}};
fn main() {
    let bump: Bump = Bump::new();
    let _guard = bump.claim();
    let dynamic: &dyn BumpAllocatorCoreScope<'_> = bump.as_scope();
    let r = std::panic::catch_unwind(std::panic::AssertUnwindSafe(|| { let _ = dynamic.alloc(1u32); }));
    println!("alloc through trait object on a claimed arena unwound: {}", r.is_err());
    let r = std::panic::catch_unwind(std::panic::AssertUnwindSafe(|| { dynamic.reserve(10); }));
    println!("reserve through trait object on a claimed arena unwound: {}", r.is_err());
}
