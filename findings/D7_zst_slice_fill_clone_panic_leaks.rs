//! D7 (C06): `alloc_slice_fill(len, value)` for a zero-sized `T` clones `value` len-1 times and
//! forgets each clone; when a later `clone()` panics the clones made so far are never dropped.
//! (The sized path and the sibling helpers `alloc_slice_clone` / `alloc_slice_fill_with` drop
//! what they have produced so far.)
//!
//! Build as examples/d7.rs of a scratch copy of bump-scope: `cargo run --example d7`.
//! Before the fix: "created 3, dropped 1". After: "created 3, dropped 3".
use bump_scope::Bump;
use std::panic::{AssertUnwindSafe, catch_unwind};
use std::sync::atomic::{AtomicUsize, Ordering::SeqCst};

static CREATED: AtomicUsize = AtomicUsize::new(0);
static DROPPED: AtomicUsize = AtomicUsize::new(0);
static CLONES: AtomicUsize = AtomicUsize::new(0);

struct Z;
impl Z {
    fn new() -> Z {
        CREATED.fetch_add(1, SeqCst);
        Z
    }
}
impl Clone for Z {
    fn clone(&self) -> Z {
        if CLONES.fetch_add(1, SeqCst) == 2 {
            panic!("third clone panics");
        }
        Z::new()
    }
}
impl Drop for Z {
    fn drop(&mut self) {
        DROPPED.fetch_add(1, SeqCst);
    }
}

fn main() {
    let bump: Bump = Bump::new();
    let r = catch_unwind(AssertUnwindSafe(|| {
        let _slice = bump.alloc_slice_fill(5, Z::new());
    }));
    assert!(r.is_err());
    let (c, d) = (CREATED.load(SeqCst), DROPPED.load(SeqCst));
    println!("created {c}, dropped {d}");
    assert_eq!(c, d, "values were lost: every value must be dropped exactly once");
}
