//! D8 (C04): `impl From<Stats<'_, A, S>> for AnyStats<'_>` (and the same impls for AnyChunk,
//! AnyChunkPrevIter, AnyChunkNextIter) use two independent elided lifetimes, so the type-erased value can be
//! given any lifetime - including 'static - and be used after the arena was reset or dropped: it then reads
//! the chunk header of freed memory. Safe code only.
//!
//! Build as examples/d8.rs of a scratch copy of bump-scope: `cargo build --example d8`.
//! Before the fix: compiles (and reads freed memory when run). After: error[E0597]/E0505 - `bump` does not
//! live long enough / cannot move out of `bump` because it is borrowed.
use bump_scope::Bump;
use bump_scope::stats::AnyStats;

fn main() {
    let bump: Bump = Bump::new();
    bump.alloc_str("some data so that a chunk exists");
    let any: AnyStats<'static> = bump.stats().into();
    drop(bump);
    // reads the header of a chunk that has been returned to the base allocator
    println!("size reported after the arena is gone: {}", any.size());
}
