//! D9 (C04): `Bump::as_mut_scope` hands out `&mut BumpScope<'_>` and `BumpScope::by_value` an owned copy of
//! another arena's chunk pointer with a covariant lifetime; assigning one through the other makes two `Bump`s
//! own the same chunk. Safe code only. A reference into bump1 then outlives the memory it points to.
use bump_scope::Bump;

fn main() {
    // (ManuallyDrop only so that this demonstration does not end in a double free: both arenas would release the chunk)
    let mut bump1: std::mem::ManuallyDrop<Bump> = std::mem::ManuallyDrop::new(Bump::new());
    let mut bump2: Bump = Bump::new();
    bump2.alloc_str("make sure bump2 has a chunk");
    {
        let r1 = bump1.as_mut_scope();
        let r2 = bump2.as_mut_scope();
        *r1 = r2.by_value();
    }
    let a: &u64 = bump1.alloc(0x1111_1111_1111_1111u64).into_ref();
    let addr = a as *const u64 as usize;
    let inside_bump2 = bump2.stats().small_to_big().any(|c| {
        let s = c.chunk_start().as_ptr() as usize;
        let e = c.chunk_end().as_ptr() as usize;
        s <= addr && addr < e
    });
    println!("allocation made through bump1 lies in a chunk of bump2: {inside_bump2}");
    drop(bump2); // frees the chunk `a` points into while `a` (borrowing only bump1) is still usable
    println!("value read after its chunk was released: {:#x}", *a);
}
