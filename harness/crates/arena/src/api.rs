//! Object-safe view of a `BumpScope<'_, A, BumpSettings<..>>` (DESIGN.md "Engine A in one
//! paragraph"): the interpreter, model and oracles are written once against `dyn Api`; only
//! these thin shims are monomorphised per (allocator shape, settings) cell.

#![allow(clippy::too_many_arguments, clippy::type_complexity)]

use std::alloc::Layout;
use std::mem::MaybeUninit;
use std::ops::Range;
use std::ptr::NonNull;

use bump_scope::alloc::Allocator;
use bump_scope::settings::{Bool, BumpAllocatorSettings, BumpSettings};
use bump_scope::stats::{AnyStats, Stats};
use bump_scope::traits::{
    BumpAllocatorCore, BumpAllocatorCoreScope, BumpAllocatorTyped, BumpAllocatorTypedScope, MutBumpAllocatorCore,
    MutBumpAllocatorTypedScope,
};
use bump_scope::{BaseAllocator, BumpBox, BumpScope, BumpScopeGuard, BumpVec, Checkpoint, FixedBumpVec, WithoutDealloc, WithoutShrink};

use bsv_core::talloc::Handle;
pub use bsv_core::common::*;

#[derive(Clone, Copy, Debug, PartialEq, Eq)]
pub enum Route {
    Own,
    Ref,
    WoDealloc,
    WoShrink,
    WoDeallocShrink,
    WoShrinkDealloc,
    DynCore,
    DynCoreScope,
    DynMutCore,
}

impl Route {
    pub const ALL: [Route; 9] = [
        Route::Own,
        Route::Ref,
        Route::WoDealloc,
        Route::WoShrink,
        Route::WoDeallocShrink,
        Route::WoShrinkDealloc,
        Route::DynCore,
        Route::DynCoreScope,
        Route::DynMutCore,
    ];
    pub fn without_dealloc(self) -> bool {
        matches!(self, Route::WoDealloc | Route::WoDeallocShrink | Route::WoShrinkDealloc)
    }
    pub fn without_shrink(self) -> bool {
        matches!(self, Route::WoShrink | Route::WoDeallocShrink | Route::WoShrinkDealloc)
    }
    pub fn is_dyn(self) -> bool {
        matches!(self, Route::DynCore | Route::DynCoreScope | Route::DynMutCore)
    }
}

#[derive(Clone, Copy, Debug, PartialEq, Eq)]
pub enum Elem {
    U8,
    U16,
    U32,
    U64,
    U128,
    A3,
    A24,
    Al32,
    Unit,
}

impl Elem {
    pub const ALL: [Elem; 6] = [Elem::U8, Elem::U32, Elem::U64, Elem::A3, Elem::Al32, Elem::Unit];
    pub fn layout(self) -> Layout {
        match self {
            Elem::U8 => Layout::new::<u8>(),
            Elem::U16 => Layout::new::<u8>(),
            Elem::U32 => Layout::new::<u32>(),
            Elem::U64 => Layout::new::<u64>(),
            Elem::U128 => Layout::new::<u64>(),
            Elem::A3 => Layout::new::<[u8; 3]>(),
            Elem::A24 => Layout::new::<[u8; 3]>(),
            Elem::Al32 => Layout::new::<Al32>(),
            Elem::Unit => Layout::new::<()>(),
        }
    }
}

macro_rules! with_elem {
    ($e:expr, $T:ident => $body:expr) => {
        match $e {
            Elem::U8 | Elem::U16 => {
                type $T = u8;
                $body
            }
            Elem::U32 => {
                type $T = u32;
                $body
            }
            Elem::U64 | Elem::U128 => {
                type $T = u64;
                $body
            }
            Elem::A3 | Elem::A24 => {
                type $T = [u8; 3];
                $body
            }
            Elem::Al32 => {
                type $T = Al32;
                $body
            }
            Elem::Unit => {
                type $T = ();
                $body
            }
        }
    };
}

/// helper calls are only instantiated for four element types
macro_rules! with_elem_small {
    ($e:expr, $T:ident => $body:expr) => {
        match $e {
            Elem::U8 | Elem::U16 | Elem::A3 | Elem::A24 => {
                type $T = u8;
                $body
            }
            Elem::U32 | Elem::U64 | Elem::U128 => {
                type $T = u32;
                $body
            }
            Elem::Al32 => {
                type $T = Al32;
                $body
            }
            Elem::Unit => {
                type $T = ();
                $body
            }
        }
    };
}

#[derive(Clone, Copy, Debug, PartialEq, Eq)]
pub enum TypedReq {
    Layout(Layout),
    Sized(Elem),
    Slice(Elem, usize),
    SliceFor(Elem, usize),
}

/// Allocation-producing helper calls whose result is registered as a block.
#[derive(Clone, Copy, Debug, PartialEq, Eq)]
pub enum BoxReq {
    Alloc(Elem),
    AllocWith(Elem),
    AllocDefault(Elem),
    AllocUninit(Elem),
    SliceCopy(Elem, usize),
    SliceClone(Elem, usize),
    SliceFill(Elem, usize),
    SliceFillWith(Elem, usize),
    UninitSlice(Elem, usize),
    Str(usize),
    Fmt(usize),
    CStr(usize),
    CStrFromStr(usize),
    CStrFmt(usize),
    Iter(usize, u8),
    IterExact(usize),
}

#[derive(Clone, Copy, Debug, PartialEq, Eq)]
pub enum MutBoxReq {
    IterMut(usize, u8),
    IterMutRev(usize, u8),
    FmtMut(usize),
    CStrFmtMut(usize),
}

/// Result block of a helper call: address, byte size, alignment. `ok` = value-level check passed.
#[derive(Clone, Copy, Debug)]
pub struct BoxOut {
    pub ptr: usize,
    pub size: usize,
    pub align: usize,
    pub value_ok: bool,
}

pub type AllocRes = Result<(usize, usize), ()>;

/// `&self` part (available on a claimed original, too).
pub trait Api {
    fn x_info(&self) -> Info;
    fn x_shared(&self) -> &dyn Api;

    // ---- Allocator trait through a route
    fn x_allocate(&self, route: Route, layout: Layout, zeroed: bool) -> AllocRes;
    unsafe fn x_grow(&self, route: Route, ptr: usize, old: Layout, new: Layout, zeroed: bool) -> AllocRes;
    unsafe fn x_shrink(&self, route: Route, ptr: usize, old: Layout, new: Layout) -> AllocRes;
    unsafe fn x_deallocate(&self, route: Route, ptr: usize, layout: Layout);

    // ---- BumpAllocatorCore
    fn x_prepare(&self, route: Route, layout: Layout, rev: bool) -> AllocRes; // (start, end)
    unsafe fn x_commit(&self, route: Route, layout: Layout, range: (usize, usize), rev: bool) -> usize;
    fn x_checkpoint(&self, route: Route) -> Checkpoint;
    unsafe fn x_reset_to(&self, route: Route, cp: Checkpoint);
    fn x_is_claimed(&self, route: Route) -> bool;
    fn x_any_stats(&self, route: Route) -> StatsSnap;
    fn x_any_from_stats(&self) -> StatsSnap;
    fn x_stats(&self) -> StatsSnap;
    fn x_allocator_is_some(&self) -> bool;

    // ---- BumpAllocatorTyped
    fn x_typed_alloc(&self, route: Route, req: TypedReq, try_: bool) -> Result<usize, ()>;
    unsafe fn x_shrink_slice(&self, route: Route, elem: Elem, ptr: usize, old_len: usize, new_len: usize) -> Option<usize>;
    /// returns (ptr or end-ptr for rev, cap)
    fn x_prepare_slice(&self, route: Route, elem: Elem, cap: usize, rev: bool, try_: bool) -> Result<(usize, usize), ()>;
    unsafe fn x_commit_slice(&self, route: Route, elem: Elem, ptr: usize, len: usize, cap: usize, rev: bool) -> (usize, usize);
    fn x_reserve(&self, route: Route, additional: usize, try_: bool) -> Result<(), ()>;
    unsafe fn x_dealloc_box(&self, route: Route, ptr: usize, elem: Elem, len: Option<usize>);

    // ---- allocation helpers (BumpAllocatorTypedScope) - result leaked into a raw block
    fn x_boxed(&self, route: Route, req: BoxReq, seed: u64, try_: bool) -> Result<BoxOut, ()>;

    // ---- a BumpVec<u64, &Scope> kept as raw parts between operations
    /// op: 0 push, 1 reserve(n), 2 shrink_to_fit, 3 extend n, 4 drop (deallocate), 6 shrink_to(n % 8), 7 clear + shrink_to(0)
    unsafe fn x_vec_op(&self, route: Route, parts: (usize, usize, usize), op: u8, n: usize, seed: u64) -> ((usize, usize, usize), bool);

    /// `alloc_try_with`: closure allocates through `self` via `inner`, returns Ok / Err.
    fn x_alloc_try_with(&self, ok: bool, try_: bool, inner: &mut dyn FnMut(&dyn Api)) -> Result<Option<BoxOut>, ()>;

    /// claim; `f(guard, original)`
    fn x_claim(&self, f: &mut dyn FnMut(&mut dyn ApiMut, &dyn Api));
}

/// `&mut self` part.
pub trait ApiMut: Api {
    fn x_as_api(&self) -> &dyn Api;
    fn x_scoped(&mut self, f: &mut dyn FnMut(&mut dyn ApiMut));
    fn x_scoped_aligned(&mut self, n: usize, f: &mut dyn FnMut(&mut dyn ApiMut));
    fn x_aligned(&mut self, n: usize, f: &mut dyn FnMut(&mut dyn ApiMut));
    /// raise only (n >= own min align)
    fn x_borrow_mut_with_settings(&mut self, n: usize, f: &mut dyn FnMut(&mut dyn ApiMut));
    fn x_scope_guard(&mut self, f: &mut dyn FnMut(&mut dyn GuardApi));
    /// by_value (optionally raising alignment through BumpScope::with_settings)
    fn x_by_value(&mut self, try_: bool, raise_to: Option<usize>, f: &mut dyn FnMut(&mut dyn ApiMut)) -> Result<(), ()>;
    fn x_alloc_try_with_mut(&mut self, ok: bool, try_: bool, elem_big: bool) -> Result<Option<BoxOut>, ()>;
    fn x_mut_boxed(&mut self, req: MutBoxReq, seed: u64, try_: bool) -> Result<BoxOut, ()>;
}

pub trait GuardApi {
    fn x_scope(&mut self, f: &mut dyn FnMut(&mut dyn ApiMut));
    fn x_reset(&mut self);
}

// ------------------------------------------------------------------------------------------

fn nn(p: usize) -> NonNull<u8> {
    NonNull::new(p as *mut u8).expect("null pointer passed to api")
}

fn res(r: Result<NonNull<[u8]>, bump_scope::alloc::AllocError>) -> AllocRes {
    match r {
        Ok(p) => Ok((p.cast::<u8>().as_ptr() as usize, p.len())),
        Err(_) => Err(()),
    }
}

fn make_val<T: Copy>(seed: u64, idx: usize) -> T {
    let mut v = MaybeUninit::<T>::zeroed();
    let n = std::mem::size_of::<T>();
    let p = v.as_mut_ptr() as *mut u8;
    for i in 0..n {
        unsafe { *p.add(i) = val_bytes(seed, idx * n.max(1) + i) };
    }
    unsafe { v.assume_init() }
}

fn check_vals<T: Copy>(ptr: *const T, len: usize, seed: u64) -> bool {
    let n = std::mem::size_of::<T>();
    let p = ptr as *const u8;
    for i in 0..len * n {
        if unsafe { *p.add(i) } != val_bytes(seed, i) {
            return false;
        }
    }
    true
}

struct LyingIter<T> {
    n: usize,
    i: usize,
    seed: u64,
    hint: u8,
    _m: std::marker::PhantomData<T>,
}
impl<T: Copy> Iterator for LyingIter<T> {
    type Item = T;
    fn next(&mut self) -> Option<T> {
        if self.i < self.n {
            let v = make_val::<T>(self.seed, self.i);
            self.i += 1;
            Some(v)
        } else {
            None
        }
    }
    fn size_hint(&self) -> (usize, Option<usize>) {
        let rem = self.n - self.i;
        match self.hint % 4 {
            0 => (rem, Some(rem)),
            1 => (0, None),
            2 => (rem / 2, Some(rem * 2 + 1)),
            _ => (rem + 3, None), // too large a lower bound is a "lie" std tolerates (not unsafe)
        }
    }
}

macro_rules! route_core {
    ($self:ident, $route:expr, |$b:ident| $body:expr) => {{
        let own = $self;
        let wd = WithoutDealloc(own);
        let ws = WithoutShrink(own);
        let wsd = WithoutShrink(WithoutDealloc(own));
        let dc: &dyn BumpAllocatorCore = own;
        match $route {
            Route::Own | Route::Ref => {
                let $b = own;
                $body
            }
            Route::WoDealloc => {
                let $b = &wd;
                $body
            }
            Route::WoShrink => {
                let $b = &ws;
                $body
            }
            Route::WoDeallocShrink | Route::WoShrinkDealloc => {
                let $b = &wsd;
                $body
            }
            Route::DynCore | Route::DynCoreScope | Route::DynMutCore => {
                let $b = &dc;
                $body
            }
        }
    }};
}

/// Generic (typed) methods are only instantiated for four routes: the handle, a reference,
/// both wrappers nested, and a trait object; the others map onto these.
macro_rules! route_typed {
    ($self:ident, $route:expr, |$b:ident| $body:expr) => {{
        let own = $self;
        let wsd = WithoutShrink(WithoutDealloc(own));
        match $route {
            Route::WoDealloc | Route::WoShrink | Route::WoDeallocShrink | Route::WoShrinkDealloc => {
                let $b = &wsd;
                $body
            }
            _ => {
                let $b = own;
                $body
            }
        }
    }};
}

/// Routes that give `BumpAllocatorTypedScope<'a>` (need `BumpAllocatorCoreScope`): everything
/// except `dyn BumpAllocatorCore` / `dyn MutBumpAllocatorCore`, which are mapped to the scope dyn.
macro_rules! route_scope {
    ($self:ident, $route:expr, |$b:ident| $body:expr) => {{
        let own = $self;
        let dcs: &dyn BumpAllocatorCoreScope<'_> = own;
        match $route {
            Route::DynCoreScope | Route::DynMutCore | Route::DynCore => {
                let $b = &dcs;
                $body
            }
            _ => {
                let $b = own;
                $body
            }
        }
    }};
}

type Sc<'a, A, const MA: usize, const UP: bool, const GA: bool, const DE: bool, const SH: bool, const MCS: usize> =
    BumpScope<'a, A, BumpSettings<MA, UP, GA, true, DE, SH, MCS>>;

fn box_out<T: ?Sized>(b: BumpBox<'_, T>, value_ok: bool) -> BoxOut {
    let l = Layout::for_value::<T>(&b);
    let p = b.into_raw();
    BoxOut { ptr: p.cast::<u8>().as_ptr() as usize, size: l.size(), align: l.align(), value_ok }
}

macro_rules! impl_api {
    ($MA:literal; $($N:literal),*) => {
        impl<'a, A, const UP: bool, const GA: bool, const DE: bool, const SH: bool, const MCS: usize> Api
            for Sc<'a, A, $MA, UP, GA, DE, SH, MCS>
        where
            A: Handle + BaseAllocator<Bool<GA>>,
        {
            fn x_info(&self) -> Info {
                let h = bsv_core::talloc::header_layout::<A>();
                Info { up: UP, min_align: $MA, ga: GA, de: DE, sh: SH, mcs: MCS, shape: A::NAME, header_size: h.size(), header_align: h.align(), full: const { A::HOME == $MA } }
            }
            fn x_shared(&self) -> &dyn Api {
                self
            }

            fn x_allocate(&self, route: Route, layout: Layout, zeroed: bool) -> AllocRes {
                route_core!(self, route, |b| if zeroed { res(b.allocate_zeroed(layout)) } else { res(b.allocate(layout)) })
            }
            unsafe fn x_grow(&self, route: Route, ptr: usize, old: Layout, new: Layout, zeroed: bool) -> AllocRes {
                unsafe {
                    route_core!(self, route, |b| if zeroed { res(b.grow_zeroed(nn(ptr), old, new)) } else { res(b.grow(nn(ptr), old, new)) })
                }
            }
            unsafe fn x_shrink(&self, route: Route, ptr: usize, old: Layout, new: Layout) -> AllocRes {
                unsafe { route_core!(self, route, |b| res(b.shrink(nn(ptr), old, new))) }
            }
            unsafe fn x_deallocate(&self, route: Route, ptr: usize, layout: Layout) {
                unsafe { route_core!(self, route, |b| b.deallocate(nn(ptr), layout)) }
            }

            fn x_prepare(&self, route: Route, layout: Layout, rev: bool) -> AllocRes {
                let r: Result<Range<NonNull<u8>>, _> =
                    route_core!(self, route, |b| if rev { b.prepare_allocation_rev(layout) } else { b.prepare_allocation(layout) });
                match r {
                    Ok(r) => Ok((r.start.as_ptr() as usize, r.end.as_ptr() as usize)),
                    Err(_) => Err(()),
                }
            }
            unsafe fn x_commit(&self, route: Route, layout: Layout, range: (usize, usize), rev: bool) -> usize {
                let r = nn(range.0)..nn(range.1);
                let p = unsafe {
                    route_core!(self, route, |b| if rev { b.allocate_prepared_rev(layout, r) } else { b.allocate_prepared(layout, r) })
                };
                p.as_ptr() as usize
            }
            fn x_checkpoint(&self, route: Route) -> Checkpoint {
                route_core!(self, route, |b| b.checkpoint())
            }
            unsafe fn x_reset_to(&self, route: Route, cp: Checkpoint) {
                unsafe { route_core!(self, route, |b| b.reset_to(cp)) }
            }
            fn x_is_claimed(&self, route: Route) -> bool {
                route_core!(self, route, |b| b.is_claimed())
            }
            fn x_any_stats(&self, route: Route) -> StatsSnap {
                route_core!(self, route, |b| snap_any(b.any_stats(), UP))
            }
            fn x_any_from_stats(&self) -> StatsSnap {
                snap_any(AnyStats::from(BumpScope::stats(self)), UP)
            }
            fn x_stats(&self) -> StatsSnap {
                snap_stats(BumpScope::stats(self))
            }
            fn x_allocator_is_some(&self) -> bool {
                self.allocator().is_some()
            }

            fn x_typed_alloc(&self, route: Route, req: TypedReq, try_: bool) -> Result<usize, ()> {
                if const { A::HOME != $MA } {
                    unreachable!("lite cell");
                }
                route_typed!(self, route, |b| match req {
                    TypedReq::Layout(l) => {
                        if try_ { b.try_allocate_layout(l).map(|p| p.as_ptr() as usize).map_err(|_| ()) } else { Ok(b.allocate_layout(l).as_ptr() as usize) }
                    }
                    TypedReq::Sized(e) => with_elem!(e, T => {
                        if try_ { b.try_allocate_sized::<T>().map(|p| p.as_ptr() as usize).map_err(|_| ()) } else { Ok(b.allocate_sized::<T>().as_ptr() as usize) }
                    }),
                    TypedReq::Slice(e, n) => with_elem!(e, T => {
                        if try_ { b.try_allocate_slice::<T>(n).map(|p| p.as_ptr() as usize).map_err(|_| ()) } else { Ok(b.allocate_slice::<T>(n).as_ptr() as usize) }
                    }),
                    TypedReq::SliceFor(e, n) => with_elem!(e, T => {
                        // a slice value of length n (zero-filled std Vec, never read by the arena)
                        let v: Vec<MaybeUninit<T>> = (0..n).map(|_| MaybeUninit::<T>::zeroed()).collect();
                        if try_ { b.try_allocate_slice_for(&v[..]).map(|p| p.as_ptr() as usize).map_err(|_| ()) } else { Ok(b.allocate_slice_for(&v[..]).as_ptr() as usize) }
                    }),
                })
            }
            unsafe fn x_shrink_slice(&self, route: Route, elem: Elem, ptr: usize, old_len: usize, new_len: usize) -> Option<usize> {
                if const { A::HOME != $MA } {
                    unreachable!("lite cell");
                }
                unsafe {
                    route_typed!(self, route, |b| with_elem!(elem, T => {
                        b.shrink_slice::<T>(nn(ptr).cast(), old_len, new_len).map(|p| p.as_ptr() as usize)
                    }))
                }
            }
            fn x_prepare_slice(&self, route: Route, elem: Elem, cap: usize, rev: bool, try_: bool) -> Result<(usize, usize), ()> {
                if const { A::HOME != $MA } {
                    unreachable!("lite cell");
                }
                route_typed!(self, route, |b| with_elem!(elem, T => {
                    if rev {
                        if try_ {
                            b.try_prepare_slice_allocation_rev::<T>(cap).map(|(p, c)| (p.as_ptr() as usize, c)).map_err(|_| ())
                        } else {
                            let (p, c) = b.prepare_slice_allocation_rev::<T>(cap);
                            Ok((p.as_ptr() as usize, c))
                        }
                    } else if try_ {
                        b.try_prepare_slice_allocation::<T>(cap).map(|p| (p.cast::<T>().as_ptr() as usize, p.len())).map_err(|_| ())
                    } else {
                        let p = b.prepare_slice_allocation::<T>(cap);
                        Ok((p.cast::<T>().as_ptr() as usize, p.len()))
                    }
                }))
            }
            unsafe fn x_commit_slice(&self, route: Route, elem: Elem, ptr: usize, len: usize, cap: usize, rev: bool) -> (usize, usize) {
                if const { A::HOME != $MA } {
                    unreachable!("lite cell");
                }
                unsafe {
                    route_typed!(self, route, |b| with_elem!(elem, T => {
                        let p = if rev {
                            b.allocate_prepared_slice_rev::<T>(nn(ptr).cast(), len, cap)
                        } else {
                            b.allocate_prepared_slice::<T>(nn(ptr).cast(), len, cap)
                        };
                        (p.cast::<T>().as_ptr() as usize, p.len())
                    }))
                }
            }
            fn x_reserve(&self, route: Route, additional: usize, try_: bool) -> Result<(), ()> {
                route_core!(self, route, |b| if try_ { b.try_reserve(additional).map_err(|_| ()) } else { Ok(b.reserve(additional)) })
            }
            unsafe fn x_dealloc_box(&self, route: Route, ptr: usize, elem: Elem, len: Option<usize>) {
                if const { A::HOME != $MA } {
                    unreachable!("lite cell");
                }
                unsafe {
                    route_typed!(self, route, |b| with_elem!(elem, T => {
                        match len {
                            None => b.dealloc(BumpBox::<MaybeUninit<T>>::from_raw(nn(ptr).cast())),
                            Some(n) => b.dealloc(BumpBox::<[MaybeUninit<T>]>::from_raw(NonNull::slice_from_raw_parts(nn(ptr).cast(), n))),
                        }
                    }))
                }
            }

            fn x_boxed(&self, route: Route, req: BoxReq, seed: u64, try_: bool) -> Result<BoxOut, ()> {
                if const { A::HOME != $MA } {
                    unreachable!("lite cell");
                }
                if route.is_dyn() {
                    // Self = dyn BumpAllocatorCoreScope: the trait-object implementation of the typed layer
                    // (one instantiation for all cells)
                    let d: &dyn BumpAllocatorCoreScope<'a> = self;
                    boxed_impl(d, req, seed, try_)
                } else {
                    boxed_impl(self, req, seed, try_)
                }
            }

            unsafe fn x_vec_op(&self, route: Route, parts: (usize, usize, usize), op: u8, n: usize, seed: u64) -> ((usize, usize, usize), bool) {
                if const { A::HOME != $MA } {
                    unreachable!("lite cell");
                }
                {
                    let _ = route;
                    unsafe { vec_op_impl(self, parts, op, n, seed) }
                }
            }

            fn x_alloc_try_with(&self, ok: bool, try_: bool, inner: &mut dyn FnMut(&dyn Api)) -> Result<Option<BoxOut>, ()> {
                let this: &dyn Api = self;
                let f = || -> Result<[u64; 5], [u8; 3]> {
                    inner(this);
                    if ok { Ok([0x1111_2222_3333_4444; 5]) } else { Err([1, 2, 3]) }
                };
                let r = if try_ { self.try_alloc_try_with(f).map_err(|_| ())? } else { BumpScope::alloc_try_with(self, f) };
                Ok(match r {
                    Ok(b) => {
                        let okv = *b == [0x1111_2222_3333_4444; 5];
                        Some(box_out(b, okv))
                    }
                    Err(_) => None,
                })
            }

            fn x_claim(&self, f: &mut dyn FnMut(&mut dyn ApiMut, &dyn Api)) {
                let mut g = BumpScope::claim(self);
                let gm: &mut Sc<'a, A, $MA, UP, GA, DE, SH, MCS> = &mut g;
                f(gm, self)
            }
        }

        impl<'a, A, const UP: bool, const GA: bool, const DE: bool, const SH: bool, const MCS: usize> ApiMut
            for Sc<'a, A, $MA, UP, GA, DE, SH, MCS>
        where
            A: Handle + BaseAllocator<Bool<GA>>,
        {
            fn x_as_api(&self) -> &dyn Api {
                self
            }
            fn x_scoped(&mut self, f: &mut dyn FnMut(&mut dyn ApiMut)) {
                BumpScope::scoped(self, |s| f(s))
            }
            fn x_scoped_aligned(&mut self, n: usize, f: &mut dyn FnMut(&mut dyn ApiMut)) {
                match n {
                    1 => BumpScope::scoped_aligned::<1, _>(self, |s| f(s)),
                    2 => BumpScope::scoped_aligned::<2, _>(self, |s| f(s)),
                    4 => BumpScope::scoped_aligned::<4, _>(self, |s| f(s)),
                    8 => BumpScope::scoped_aligned::<8, _>(self, |s| f(s)),
                    _ => BumpScope::scoped_aligned::<16, _>(self, |s| f(s)),
                }
            }
            fn x_aligned(&mut self, n: usize, f: &mut dyn FnMut(&mut dyn ApiMut)) {
                match n {
                    1 => BumpScope::aligned::<1, _>(self, |s| f(s)),
                    2 => BumpScope::aligned::<2, _>(self, |s| f(s)),
                    4 => BumpScope::aligned::<4, _>(self, |s| f(s)),
                    8 => BumpScope::aligned::<8, _>(self, |s| f(s)),
                    _ => BumpScope::aligned::<16, _>(self, |s| f(s)),
                }
            }
            fn x_borrow_mut_with_settings(&mut self, n: usize, f: &mut dyn FnMut(&mut dyn ApiMut)) {
                match n {
                    $( $N => f(BumpScope::borrow_mut_with_settings::<BumpSettings<$N, UP, GA, true, DE, SH, MCS>>(self)), )*
                    _ => f(self),
                }
            }
            fn x_scope_guard(&mut self, f: &mut dyn FnMut(&mut dyn GuardApi)) {
                let mut g = G(BumpScope::scope_guard(self));
                f(&mut g)
            }
            fn x_by_value(&mut self, try_: bool, raise_to: Option<usize>, f: &mut dyn FnMut(&mut dyn ApiMut)) -> Result<(), ()> {
                let mut v = if try_ { self.try_by_value().map_err(|_| ())? } else { BumpScope::by_value(self) };
                match raise_to {
                    $( Some($N) => f(&mut BumpScope::with_settings::<BumpSettings<$N, UP, GA, true, DE, SH, MCS>>(v)), )*
                    _ => f(&mut v),
                }
                Ok(())
            }
            fn x_alloc_try_with_mut(&mut self, ok: bool, try_: bool, elem_big: bool) -> Result<Option<BoxOut>, ()> {
                if elem_big {
                    // a payload whose size is a multiple of every minimum alignment but whose alignment is 1
                    let f = || -> Result<[u8; 16], [u16; 3]> { if ok { Ok([0x6b; 16]) } else { Err([1, 2, 3]) } };
                    let r = if try_ { self.try_alloc_try_with_mut(f).map_err(|_| ())? } else { BumpScope::alloc_try_with_mut(self, f) };
                    return Ok(match r {
                        Ok(b) => {
                            let okv = *b == [0x6b; 16];
                            Some(box_out(b, okv))
                        }
                        Err(_) => None,
                    });
                }
                let f = || -> Result<[u64; 5], [u8; 3]> { if ok { Ok([0x5555_6666_7777_8888; 5]) } else { Err([1, 2, 3]) } };
                let r = if try_ { self.try_alloc_try_with_mut(f).map_err(|_| ())? } else { BumpScope::alloc_try_with_mut(self, f) };
                Ok(match r {
                    Ok(b) => {
                        let okv = *b == [0x5555_6666_7777_8888; 5];
                        Some(box_out(b, okv))
                    }
                    Err(_) => None,
                })
            }
            fn x_mut_boxed(&mut self, req: MutBoxReq, seed: u64, try_: bool) -> Result<BoxOut, ()> {
                if const { A::HOME != $MA } {
                    unreachable!("lite cell");
                }
                mut_boxed_impl(self, req, seed, try_)
            }
        }
    };
}

impl_api!(1; 1, 2, 4, 8, 16);
impl_api!(2; 2, 4, 8, 16);
impl_api!(4; 4, 8, 16);
impl_api!(8; 8, 16);
impl_api!(16; 16);


struct G<'g, A, S>(BumpScopeGuard<'g, A, S>)
where
    A: BaseAllocator<S::GuaranteedAllocated>,
    S: BumpAllocatorSettings;

impl<'g, A, S> GuardApi for G<'g, A, S>
where
    A: BaseAllocator<S::GuaranteedAllocated>,
    S: BumpAllocatorSettings,
    for<'x> BumpScope<'x, A, S>: ApiMut,
{
    fn x_scope(&mut self, f: &mut dyn FnMut(&mut dyn ApiMut)) {
        f(self.0.scope())
    }
    fn x_reset(&mut self) {
        self.0.reset()
    }
}

fn elems_ok<T: Copy>(ptr: *const T, n: usize, seed: u64, per_index: bool) -> bool {
    if per_index {
        check_vals(ptr, n, seed)
    } else {
        // every element equals make_val(seed, 0)
        let sz = std::mem::size_of::<T>();
        let p = ptr as *const u8;
        for e in 0..n {
            for i in 0..sz {
                if unsafe { *p.add(e * sz + i) } != val_bytes(seed, i) {
                    return false;
                }
            }
        }
        true
    }
}

fn boxed_impl<'a, X: BumpAllocatorTypedScope<'a> + ?Sized>(b: &X, req: BoxReq, seed: u64, try_: bool) -> Result<BoxOut, ()> {
    macro_rules! t {
        ($try_call:expr, $call:expr) => {
            if try_ { $try_call.map_err(|_| ())? } else { $call }
        };
    }
    Ok(match req {
        BoxReq::Alloc(e) => with_elem_small!(e, T => {
            let v = make_val::<T>(seed, 0);
            let bx = t!(b.try_alloc(v), b.alloc(v));
            let ok = check_vals(&*bx as *const T, 1, seed);
            box_out(bx, ok)
        }),
        BoxReq::AllocWith(e) => with_elem_small!(e, T => {
            let bx = t!(b.try_alloc_with(|| make_val::<T>(seed, 0)), b.alloc_with(|| make_val::<T>(seed, 0)));
            let ok = check_vals(&*bx as *const T, 1, seed);
            box_out(bx, ok)
        }),
        BoxReq::AllocDefault(e) => with_elem_small!(e, T => {
            let bx = t!(b.try_alloc_default::<T>(), b.alloc_default::<T>());
            let ok = *bx == T::default();
            box_out(bx, ok)
        }),
        BoxReq::AllocUninit(e) => with_elem_small!(e, T => {
            let bx = t!(b.try_alloc_uninit::<T>(), b.alloc_uninit::<T>());
            box_out(bx, true)
        }),
        BoxReq::SliceCopy(e, n) => with_elem_small!(e, T => {
            let v: Vec<T> = (0..n).map(|i| make_val::<T>(seed, i)).collect();
            let bx = t!(b.try_alloc_slice_copy(&v), b.alloc_slice_copy(&v));
            let ok = bx.len() == n && elems_ok(bx.as_ptr(), n, seed, true);
            box_out(bx, ok)
        }),
        BoxReq::SliceClone(e, n) => with_elem_small!(e, T => {
            let v: Vec<T> = (0..n).map(|i| make_val::<T>(seed, i)).collect();
            let bx = t!(b.try_alloc_slice_clone(&v), b.alloc_slice_clone(&v));
            let ok = bx.len() == n && elems_ok(bx.as_ptr(), n, seed, true);
            box_out(bx, ok)
        }),
        BoxReq::SliceFill(e, n) => with_elem_small!(e, T => {
            let v = make_val::<T>(seed, 0);
            let bx = t!(b.try_alloc_slice_fill(n, v), b.alloc_slice_fill(n, v));
            let ok = bx.len() == n && elems_ok(bx.as_ptr(), n, seed, false);
            box_out(bx, ok)
        }),
        BoxReq::SliceFillWith(e, n) => with_elem_small!(e, T => {
            let mut i = 0usize;
            let mut g = || { let v = make_val::<T>(seed, i); i += 1; v };
            let bx = if try_ { b.try_alloc_slice_fill_with(n, &mut g).map_err(|_| ())? } else { b.alloc_slice_fill_with(n, &mut g) };
            let ok = bx.len() == n && elems_ok(bx.as_ptr(), n, seed, true);
            box_out(bx, ok)
        }),
        BoxReq::UninitSlice(e, n) => with_elem_small!(e, T => {
            let bx = t!(b.try_alloc_uninit_slice::<T>(n), b.alloc_uninit_slice::<T>(n));
            let ok = bx.len() == n;
            box_out(bx, ok)
        }),
        BoxReq::Str(n) => {
            let s = text(seed, n);
            let bx = t!(b.try_alloc_str(&s), b.alloc_str(&s));
            let ok = &*bx == s.as_str();
            box_out(bx, ok)
        }
        BoxReq::Fmt(n) => {
            let s = text(seed, n);
            let (l, r) = s.split_at(n / 2);
            let bx = t!(b.try_alloc_fmt(format_args!("{l}{r}")), b.alloc_fmt(format_args!("{l}{r}")));
            let ok = &*bx == s.as_str();
            box_out(bx, ok)
        }
        BoxReq::CStr(n) => {
            let s = text(seed, n);
            let c = std::ffi::CString::new(s.clone()).unwrap();
            let r = t!(b.try_alloc_cstr(&c), b.alloc_cstr(&c));
            let ok = r.to_bytes() == s.as_bytes();
            BoxOut { ptr: r.as_ptr() as usize, size: n + 1, align: 1, value_ok: ok }
        }
        BoxReq::CStrFromStr(n) => {
            let s = text(seed, n);
            let r = t!(b.try_alloc_cstr_from_str(&s), b.alloc_cstr_from_str(&s));
            let ok = r.to_bytes() == s.as_bytes();
            BoxOut { ptr: r.as_ptr() as usize, size: n + 1, align: 1, value_ok: ok }
        }
        BoxReq::CStrFmt(n) => {
            let s = text(seed, n);
            let (l, r) = s.split_at(n / 2);
            let c = t!(b.try_alloc_cstr_fmt(format_args!("{l}{r}")), b.alloc_cstr_fmt(format_args!("{l}{r}")));
            let ok = c.to_bytes() == s.as_bytes();
            BoxOut { ptr: c.as_ptr() as usize, size: n + 1, align: 1, value_ok: ok }
        }
        BoxReq::Iter(n, hint) => {
            let it = LyingIter::<u32> { n, i: 0, seed, hint, _m: std::marker::PhantomData };
            let bx = if try_ { b.try_alloc_iter(it).map_err(|_| ())? } else { b.alloc_iter(it) };
            let ok = bx.len() == n && elems_ok(bx.as_ptr(), n, seed, true);
            box_out(bx, ok)
        }
        BoxReq::IterExact(n) => {
            let bx = if try_ {
                b.try_alloc_iter_exact((0..n).map(|i| make_val::<u32>(seed, i))).map_err(|_| ())?
            } else {
                b.alloc_iter_exact((0..n).map(|i| make_val::<u32>(seed, i)))
            };
            let ok = bx.len() == n && elems_ok(bx.as_ptr(), n, seed, true);
            box_out(bx, ok)
        }
    })
}

fn mut_boxed_impl<'a, X: MutBumpAllocatorTypedScope<'a>>(b: &mut X, req: MutBoxReq, seed: u64, try_: bool) -> Result<BoxOut, ()> {
    Ok(match req {
        MutBoxReq::IterMut(n, hint) => {
            let it = LyingIter::<u32> { n, i: 0, seed, hint, _m: std::marker::PhantomData };
            let bx = if try_ { b.try_alloc_iter_mut(it).map_err(|_| ())? } else { b.alloc_iter_mut(it) };
            let ok = bx.len() == n && elems_ok(bx.as_ptr(), n, seed, true);
            box_out(bx, ok)
        }
        MutBoxReq::IterMutRev(n, hint) => {
            let it = LyingIter::<u32> { n, i: 0, seed, hint, _m: std::marker::PhantomData };
            let bx = if try_ { b.try_alloc_iter_mut_rev(it).map_err(|_| ())? } else { b.alloc_iter_mut_rev(it) };
            let ok = bx.len() == n && (0..n).all(|i| bx[i] == make_val::<u32>(seed, n - 1 - i));
            box_out(bx, ok)
        }
        MutBoxReq::FmtMut(n) => {
            let s = text(seed, n);
            let (l, r) = s.split_at(n / 2);
            let bx = if try_ { b.try_alloc_fmt_mut(format_args!("{l}{r}")).map_err(|_| ())? } else { b.alloc_fmt_mut(format_args!("{l}{r}")) };
            let ok = &*bx == s.as_str();
            box_out(bx, ok)
        }
        MutBoxReq::CStrFmtMut(n) => {
            let s = text(seed, n);
            let (l, r) = s.split_at(n / 2);
            let c = if try_ { b.try_alloc_cstr_fmt_mut(format_args!("{l}{r}")).map_err(|_| ())? } else { b.alloc_cstr_fmt_mut(format_args!("{l}{r}")) };
            let ok = c.to_bytes() == s.as_bytes();
            BoxOut { ptr: c.as_ptr() as usize, size: n + 1, align: 1, value_ok: ok }
        }
    })
}

/// parts = (ptr, len, cap) of a `BumpVec<u64, &X>`; cap == 0 means "no buffer yet".
unsafe fn vec_op_impl<'a, X: BumpAllocatorTypedScope<'a>>(
    b: &X,
    parts: (usize, usize, usize),
    op: u8,
    n: usize,
    seed: u64,
) -> ((usize, usize, usize), bool) {
    let (ptr, len, cap) = parts;
    let mut v: BumpVec<u64, &X> = if cap == 0 {
        BumpVec::new_in(b)
    } else {
        let bx = unsafe { BumpBox::<[MaybeUninit<u64>]>::from_raw(NonNull::slice_from_raw_parts(nn(ptr).cast(), cap)) };
        let mut f = FixedBumpVec::from_uninit(bx);
        unsafe { f.set_len(len) };
        BumpVec::from_parts(f, b)
    };
    let mut failed = false;
    match op {
        0 => {
            if v.try_push(make_val::<u64>(seed, v.len())).is_err() {
                failed = true;
            }
        }
        1 => {
            if v.try_reserve(n).is_err() {
                failed = true;
            }
        }
        2 => v.shrink_to_fit(),
        6 => v.shrink_to(n % 8),
        7 => {
            v.clear();
            v.shrink_to(0);
        }
        3 => {
            for _ in 0..n {
                if v.try_push(make_val::<u64>(seed, v.len())).is_err() {
                    failed = true;
                    break;
                }
            }
        }
        _ => {
            drop(v);
            return ((0, 0, 0), true);
        }
    }
    let (f, _) = v.into_parts();
    let mut f = f;
    let out = if f.capacity() == 0 { (0, f.len(), 0) } else { (f.as_mut_ptr() as usize, f.len(), f.capacity()) };
    std::mem::forget(f);
    (out, !failed)
}
