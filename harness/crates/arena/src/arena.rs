//! Engine A (DESIGN.md section 3): an operation-sequence interpreter over a real arena with a
//! shadow model and oracles for C01 C02 C03 C05 C07 C10 C12 C13 C14 C18.

#![allow(clippy::too_many_arguments)]

use std::alloc::Layout;
use std::collections::BTreeSet;
use std::panic::{AssertUnwindSafe, catch_unwind};

use bump_scope::Checkpoint;

use crate::api::*;
pub use bsv_core::common::{Rec, pick};
use bsv_core::model::*;
use bsv_core::runner::{Failure, panic_message};
use bsv_core::talloc::{self, with_ctx};

pub const MAX_DEPTH: usize = 6;
pub const LIVE_CAP: usize = 256 << 10;
pub const MAX_SIZE: usize = 64 << 10;

#[derive(Clone, Copy, Debug, PartialEq, Eq)]
pub enum Mix {
    C01,
    C02,
    C03,
    C05,
    C07,
    C10,
    C12,
    C13,
    C14,
    C18,
}

#[derive(Clone, Copy, Debug, PartialEq, Eq)]
pub enum Kind {
    Nop,
    Allocate,
    Grow,
    Shrink,
    Dealloc,
    DeallocRealloc,
    Split,
    Typed,
    ShrinkSlice,
    PrepareCommit,
    PrepareSlice,
    Reserve,
    Checkpoint,
    ResetTo,
    Scoped,
    ScopeGuard,
    ScopedAligned,
    Aligned,
    BorrowMut,
    ByValue,
    Claim,
    AllocTryWith,
    AllocTryWithMut,
    Boxed,
    MutBoxed,
    DeallocBox,
    VecOp,
    Foreign,
    StatsProbe,
    // top level only
    Reset,
    ResetToStart,
    RawRoundTrip,
    WithSettings,
}

/// weights per mix; the kind byte indexes the cumulative table
fn weights(mix: Mix) -> Vec<(Kind, u32)> {
    use Kind::*;
    let base: Vec<(Kind, u32)> = vec![
        (Allocate, 40),
        (Grow, 20),
        (Shrink, 14),
        (Dealloc, 12),
        (DeallocRealloc, 4),
        (Split, 5),
        (Typed, 10),
        (ShrinkSlice, 4),
        (PrepareCommit, 6),
        (PrepareSlice, 5),
        (Reserve, 4),
        (Checkpoint, 4),
        (ResetTo, 4),
        (Scoped, 8),
        (ScopeGuard, 4),
        (ScopedAligned, 3),
        (Aligned, 4),
        (BorrowMut, 2),
        (ByValue, 2),
        (Claim, 4),
        (AllocTryWith, 3),
        (AllocTryWithMut, 2),
        (Boxed, 8),
        (MutBoxed, 3),
        (DeallocBox, 3),
        (VecOp, 8),
        (Foreign, 3),
        (StatsProbe, 2),
        (Reset, 2),
        (ResetToStart, 2),
        (RawRoundTrip, 1),
        (WithSettings, 2),
    ];
    let boost = |k: Kind| -> u32 {
        match mix {
            Mix::C01 => match k {
                Grow | Shrink | Split | PrepareCommit | PrepareSlice | Scoped | Foreign | VecOp => 2,
                _ => 1,
            },
            Mix::C02 => match k {
                Grow | Shrink => 4,
                Allocate | Scoped | Dealloc | Claim | Reserve => 2,
                _ => 1,
            },
            Mix::C03 => match k {
                Scoped | ScopeGuard | ScopedAligned | Checkpoint | ResetTo | AllocTryWith | AllocTryWithMut => 5,
                Claim | Aligned => 2,
                _ => 1,
            },
            Mix::C05 => match k {
                Reset | ResetToStart | RawRoundTrip | WithSettings => 4,
                Allocate | Scoped => 2,
                _ => 1,
            },
            Mix::C07 => match k {
                Allocate | Grow | Typed | Reserve | VecOp | Boxed | PrepareCommit | ByValue => 2,
                _ => 1,
            },
            Mix::C10 => match k {
                StatsProbe => 8,
                Claim | Aligned | Allocate => 2,
                _ => 1,
            },
            Mix::C12 => match k {
                Allocate | Typed | Reserve | PrepareCommit | PrepareSlice => 3,
                _ => 1,
            },
            Mix::C13 => match k {
                DeallocRealloc => 12,
                Dealloc | Grow | Shrink | ShrinkSlice | VecOp | DeallocBox => 4,
                Allocate => 2,
                _ => 1,
            },
            Mix::C14 => match k {
                Claim => 14,
                Scoped | VecOp => 2,
                _ => 1,
            },
            Mix::C18 => match k {
                Aligned | ScopedAligned | BorrowMut | ByValue | WithSettings => 8,
                Scoped => 3,
                Allocate => 2,
                _ => 1,
            },
        }
    };
    base.into_iter().map(|(k, w)| (k, w * boost(k))).collect()
}

#[derive(Clone, Debug)]
pub struct CpRec {
    pub cp: Checkpoint,
    pub seq: u64,
    pub min_align: usize,
    pub snap: (usize, Option<usize>, Option<usize>), // allocated, current header, pos
    pub scope_level: usize,
}

#[derive(Clone, Debug, Default)]
pub struct Flags {
    pub realloc_nonlast: bool,
    pub chunk_switch_live: bool,
    pub scope_exit_then_alloc: bool,
    pub pending_scope_exit: bool,
    pub split_then_op: bool,
    pub pending_split: bool,
    pub prepared_commit: bool,
    pub realloc_with_others: bool,
    pub zeroed_dirty: bool,
    pub scope_interesting_then_alloc: bool,
    pub pending_interesting_scope: bool,
    pub chunks_created: u32,
    pub fault_mid: bool,
    pub ops_after_fault: u32,
    pub fault_seen: bool,
    pub stats_in_claim_or_lowered: bool,
    pub multi_chunk: bool,
    pub c12_interesting: bool,
    pub reclaim_hit: bool,
    pub reclaim_ineligible: bool,
    pub claim_ops_guard: u32,
    pub claim_ops_orig: u32,
    pub alloc_after_claim: bool,
    pub pending_claim_end: bool,
    pub lowered: bool,
    pub raised: bool,
    pub lowered_switch_or_unwind: bool,
    pub unwound: bool,
    pub replayed_scopes: u32,
    pub max_depth: usize,
}

pub struct Interp<'c> {
    pub recs: Vec<&'c [u8]>,
    pub pos: usize,
    pub mix: Mix,
    pub table: Vec<(Kind, u32)>,
    pub total_w: u32,
    pub model: Model,
    pub fails: Vec<Failure>,
    pub classes: BTreeSet<&'static str>,
    pub log: Option<String>,
    pub depth: usize,
    pub scope_level: usize,
    pub hash: u64,
    pub ops: u64,
    pub nops: u64,
    pub cps: Vec<CpRec>,
    pub vec: Option<(usize, usize, usize, u64)>, // ptr,len,cap,seed   (cap>0 => has block)
    pub last: StatsSnap,
    pub flags: Flags,
    pub used: bool,
    pub probe_only: bool,
    pub plan_enabled: bool,
    /// C18: conversion check at the end of the case (0 none, 1 to guaranteed-allocated, 2 to non-claimable while claimed)
    pub conv_check: u8,
    /// the arena was deliberately leaked while claimed (forgotten claim guard): grants stay outstanding
    pub expect_leak: bool,
    /// C03 reset-loop rule requested for this case
    pub reset_loop: bool,
    /// nested replay rule switched off (while the reset loop drives the records)
    pub no_replay: bool,
    /// the size feed ran out (control flow differed from the recorded round)
    pub feed_overrun: bool,
    pub stop: bool,
    /// > 0 while executing on the *guard* of a claim
    pub in_claim: usize,
    /// minimum alignment at the top of the handle stack, outermost first
    pub align_stack: Vec<usize>,
    pub trace: Option<Vec<usize>>,
    pub ctx: usize,
    pub foreign: Option<bump_scope::Bump<talloc::Z<1>>>,
    pub nested_levels: usize,
    /// C03 replay rule: generated sizes are recorded in one round and fed back in the next, so that
    /// both rounds run the same workload even though sizes are derived from the arena's state
    /// number of operations that returned an error so far
    pub errs: u64,
    pub size_log: Option<Vec<usize>>,
    pub size_feed: Option<(Vec<usize>, usize)>,
}

pub enum Outcome<T> {
    Ok(T),
    Err,
    Panic(String),
}

pub fn guard<T>(f: impl FnOnce() -> Result<T, ()>) -> Outcome<T> {
    match catch_unwind(AssertUnwindSafe(f)) {
        Ok(Ok(v)) => Outcome::Ok(v),
        Ok(Err(())) => Outcome::Err,
        Err(p) => Outcome::Panic(panic_message(&p)),
    }
}

pub(crate) struct OpPre {
    pub(crate) calls: u64,
    pub(crate) faults: u64,
    pub(crate) grants: usize,
    pub(crate) deallocs: u64,
    pub(crate) allocated: usize,
    pub(crate) pos: Option<usize>,
    pub(crate) cur: Option<usize>,
    pub(crate) count: usize,
    /// snapshot of free space near the position: (start address, bytes)
    pub(crate) free: Option<(usize, Vec<u8>)>,
}

/// marker payload for deliberate unwinding out of a scope closure
pub type ScopeUnwind = bsv_core::runner::Marker;

impl<'c> Interp<'c> {
    pub fn new(recs: Vec<&'c [u8]>, mix: Mix, want_desc: bool) -> Self {
        let table = weights(mix);
        let total_w = table.iter().map(|t| t.1).sum();
        Interp {
            recs,
            pos: 0,
            mix,
            table,
            total_w,
            model: Model::default(),
            fails: Vec::new(),
            classes: BTreeSet::new(),
            log: if want_desc { Some(String::new()) } else { None },
            depth: 0,
            scope_level: 0,
            hash: 0xcbf29ce484222325,
            ops: 0,
            nops: 0,
            cps: Vec::new(),
            vec: None,
            last: StatsSnap::default(),
            flags: Flags::default(),
            used: false,
            probe_only: false,
            reset_loop: false,
            conv_check: 0,
            expect_leak: false,
            no_replay: false,
            feed_overrun: false,
            plan_enabled: false,
            stop: false,
            in_claim: 0,
            align_stack: Vec::new(),
            trace: None,
            ctx: 0,
            foreign: None,
            nested_levels: 0,
            errs: 0,
            size_log: None,
            size_feed: None,
        }
    }

    pub fn fail(&mut self, oracle: &str, msg: String) {
        if let Some(l) = self.log.as_mut() {
            l.push_str(&format!("  !! {oracle}: {msg}\n"));
        }
        if !self.fails.iter().any(|f| f.oracle == oracle) {
            self.fails.push(Failure { oracle: oracle.to_string(), msg });
        }
        // continuing after a failed oracle risks running on corrupted state; an oracle of another property
        // must not pre-empt the ones of the property under check, though
        if bsv_core::runner::stops_case(bsv_core::runner::default_owns(bsv_core::runner::current_prop(), oracle)) {
            self.stop = true;
        }
    }

    pub fn note(&mut self, s: impl FnOnce() -> String) {
        if self.log.is_some() && std::env::var_os("VERIF_TRACE").is_some() {
            eprintln!("{}{}", "  ".repeat(self.depth), s());
            return;
        }
        if let Some(l) = self.log.as_mut() {
            for _ in 0..self.depth {
                l.push_str("  ");
            }
            l.push_str(&s());
            l.push('\n');
        }
    }

    pub(crate) fn mixh(&mut self, v: u64) {
        self.hash ^= v;
        self.hash = self.hash.wrapping_mul(0x100000001b3);
    }

    pub fn class(&mut self, c: &'static str) {
        self.classes.insert(c);
    }

    pub(crate) fn kind_of(&self, sel: usize) -> Kind {
        let mut x = (sel as u32 * self.total_w) >> 8;
        for (k, w) in &self.table {
            if x < *w {
                return *k;
            }
            x -= *w;
        }
        Kind::Nop
    }

    pub(crate) fn probe_kind(sel: usize) -> Kind {
        match sel % 8 {
            0 | 1 => Kind::StatsProbe,
            2 => Kind::Checkpoint,
            3 => Kind::Scoped,
            4 => Kind::ScopeGuard,
            5 => Kind::Claim,
            6 => Kind::Boxed, // forced to a value of a zero-sized type
            _ => Kind::StatsProbe,
        }
    }

    pub(crate) fn size_from(&mut self, r: &Rec, align: usize, info: &Info) -> usize {
        if let Some((v, i)) = self.size_feed.as_mut() {
            if let Some(s) = v.get(*i) {
                *i += 1;
                return *s;
            }
            self.feed_overrun = true;
        }
        let s = self.size_from_state(r, align, info);
        if let Some(l) = self.size_log.as_mut() {
            l.push(s);
        }
        s
    }

    fn size_from_state(&self, r: &Rec, align: usize, info: &Info) -> usize {
        let sel = r.b(4);
        let raw = r.u32(6);
        let remaining = self.last.current.as_ref().map(|c| c.remaining).unwrap_or(0);
        let room = LIVE_CAP.saturating_sub(self.model.live_bytes).min(MAX_SIZE);
        let s = match sel % 16 {
            0 => 0,
            1 => 1,
            2..=5 => raw % 64,
            6 => (align + raw % 3).saturating_sub(1),
            7 => (remaining + raw % 3).saturating_sub(1),
            8 => remaining.saturating_sub(raw % 17),
            9 => remaining + 1 + raw % 512,
            10 => (raw % 8 + 1) * info.min_align,
            11 => raw % 600,
            12 => raw % 4096,
            13 => raw % MAX_SIZE,
            14 => info.mcs.min(8192) + raw % 64,
            _ => raw % 256,
        };
        s.min(room)
    }

    pub(crate) fn align_from(&self, r: &Rec) -> usize {
        let b = r.b(10);
        match b % 16 {
            0..=9 => 1 << (b / 16 % 5),    // 1..16
            10..=13 => 1 << (b / 16 % 8),  // 1..128
            _ => 1 << (b / 16 % 13),       // 1..4096
        }
    }

    pub(crate) fn route_from(&self, r: &Rec) -> Route {
        let b = r.b(1) as usize;
        match self.mix {
            Mix::C13 | Mix::C02 => Route::ALL[b % 9],
            _ => {
                if b % 3 == 0 {
                    Route::ALL[(b / 3) % 9]
                } else {
                    Route::Own
                }
            }
        }
    }

    pub(crate) fn try_flag(&self, r: &Rec, worst: usize) -> bool {
        // panicking variants abort the process on base-allocator refusal: only use them when the
        // slab certainly has room and no fault can fire
        if self.plan_enabled || self.in_claim_original() {
            return true;
        }
        let big = self.last.chunks.iter().map(|c| c.size).max().unwrap_or(512);
        let need = 4 * big + 4 * worst + (1 << 20);
        let rem = with_ctx(self.ctx, |c| c.slab_remaining());
        if rem < need {
            return true;
        }
        r.b(11) & 1 == 1
    }

    pub(crate) fn in_claim_original(&self) -> bool {
        false
    }

    pub(crate) fn seed_for(&self, r: &Rec) -> u64 {
        r.u64(8) ^ (self.model.seq.wrapping_mul(0x9E3779B97F4A7C15)) ^ 0x1234_5678_9ABC_DEF1
    }

    pub(crate) fn pre(&mut self, api: &dyn Api, want_free: bool) -> OpPre {
        let (calls, faults, grants, deallocs) = with_ctx(self.ctx, |c| (c.calls, c.faults_fired, c.grants.len(), c.dealloc_calls));
        let cur = self.last.current.clone();
        let free = if want_free {
            cur.as_ref().map(|c| {
                let lo = c.pos.saturating_sub(2048).max(c.content_start);
                let hi = (c.pos + 2048).min(c.content_end);
                let v = unsafe { std::slice::from_raw_parts(lo as *const u8, hi - lo) }.to_vec();
                (lo, v)
            })
        } else {
            None
        };
        let _ = api;
        OpPre {
            calls,
            faults,
            grants,
            deallocs,
            allocated: self.last.allocated,
            pos: cur.as_ref().map(|c| c.pos),
            cur: cur.as_ref().map(|c| c.header),
            count: self.last.count,
            free,
        }
    }

    /// compare the free-space snapshot; `allowed` ranges may have changed
    pub(crate) fn check_free(&mut self, pre: &OpPre, allowed: &[(usize, usize)], what: &str) {
        let Some((lo, snap)) = &pre.free else { return };
        let now = unsafe { std::slice::from_raw_parts(*lo as *const u8, snap.len()) };
        for (i, (a, b)) in snap.iter().zip(now.iter()).enumerate() {
            if a != b {
                let addr = lo + i;
                if allowed.iter().any(|(s, e)| addr >= *s && addr < *e) {
                    continue;
                }
                // bytes owned by a live block are judged by the pattern oracle
                if self.model.overlap(addr, 1).is_some() {
                    continue;
                }
                self.fail(
                    "C02/outside-write",
                    format!("{what}: byte at {addr:#x} outside the result block changed from {a:#04x} to {b:#04x} (allowed ranges {allowed:x?})"),
                );
                return;
            }
        }
    }

    pub(crate) fn faults_since(&self, pre: &OpPre) -> u64 {
        with_ctx(self.ctx, |c| c.faults_fired) - pre.faults
    }
    pub(crate) fn grants_since(&self, pre: &OpPre) -> usize {
        with_ctx(self.ctx, |c| c.grants.len()) - pre.grants
    }
    pub(crate) fn exhausted(&self) -> bool {
        with_ctx(self.ctx, |c| c.exhausted)
    }

    /// C01 placement oracle for a freshly returned block
    pub(crate) fn check_placement(&mut self, api: &dyn Api, what: &str, addr: usize, size: usize, align: usize) -> bool {
        if align != 0 && addr % align != 0 {
            self.fail("C01/aligned", format!("{what}: block {addr:#x} not aligned to {align}"));
            return false;
        }
        if size > 0 {
            let info = api.x_info();
            let chunks = chunk_map(self.ctx, &info);
            let inside = chunks.iter().any(|c| addr >= c.content_start && addr + size <= c.content_end);
            if !inside {
                self.fail(
                    "C01/inside-chunk",
                    format!("{what}: block {addr:#x}+{size} is not inside the content range of any chunk the arena owns: {chunks:x?}"),
                );
                return false;
            }
            if let Some(o) = self.model.overlap(addr, size) {
                let o = o.clone();
                self.fail(
                    "C01/disjoint",
                    format!("{what}: block {addr:#x}+{size} overlaps live block #{} {:#x}+{} ({:?})", o.id, o.addr, o.size, o.origin),
                );
                return false;
            }
        }
        true
    }

    pub(crate) fn register(&mut self, addr: usize, size: usize, init: usize, align: usize, origin: Origin, seed: u64) -> u32 {
        let b = self.model.new_block(addr, size, init, align, origin, seed);
        let id = b.id;
        write_pattern(addr, init, seed);
        self.model.insert(b);
        if let Some(t) = self.trace.as_mut() {
            t.push(addr);
        }
        if self.flags.pending_scope_exit {
            self.flags.scope_exit_then_alloc = true;
        }
        if self.flags.pending_interesting_scope {
            self.flags.scope_interesting_then_alloc = true;
        }
        if self.flags.pending_claim_end {
            self.flags.alloc_after_claim = true;
        }
        id
    }

    /// is this block adjacent to the bump position of the current chunk?
    pub(crate) fn is_last(&self, b: &Block, info: &Info) -> bool {
        match &self.last.current {
            Some(c) => {
                if info.up {
                    b.addr + b.size == c.pos
                } else {
                    b.addr == c.pos
                }
            }
            None => false,
        }
    }

    // --------------------------------------------------------------------------------------
    // after every operation

    pub fn after_op(&mut self, api: &dyn Api, pre: Option<&OpPre>, may_decrease: bool, single_request: bool, what: &str) {
        // ledger / memory
        let errs: Vec<String> = with_ctx(self.ctx, |c| std::mem::take(&mut c.errors));
        for e in errs {
            let id = e.split(':').next().unwrap_or("C05/ledger").to_string();
            self.fail(&id, format!("{what}: {e}"));
        }
        if let Some(m) = with_ctx(self.ctx, |c| c.check_memory(false)) {
            let id = m.split(':').next().unwrap_or("C05/outside-grant").to_string();
            self.fail(&id, format!("{what}: {m}"));
            self.fail("C02/outside-grant", format!("{what}: {m}"));
        }
        if let Some(m) = self.model.verify() {
            self.fail("C02/pattern", format!("after {what}: {m}"));
        }
        let info = api.x_info();
        let s = api.x_stats();
        self.check_stats(api, &info, &s, what);
        if let Some(pre) = pre {
            // C13 monotonicity monitor
            if !may_decrease && s.allocated < pre.allocated {
                self.fail(
                    "C13/allocated-decreased",
                    format!("{what}: allocated() went from {} to {} although nothing reclaimable happened", pre.allocated, s.allocated),
                );
            }
            let g = self.grants_since(pre);
            if g > 0 {
                self.flags.chunks_created += g as u32;
                self.class("chunk_created");
                if self.model.count() > 0 {
                    self.flags.chunk_switch_live = true;
                }
                if self.align_stack.len() > 1 && self.align_stack[self.align_stack.len() - 1] < self.align_stack[0] {
                    self.flags.lowered_switch_or_unwind = true;
                }
            }
            if single_request {
                if g > 1 {
                    self.fail("C12/one-grant-per-request", format!("{what}: a single request caused {g} base-allocator grants"));
                }
                if g == 1 && s.count != pre.count + 1 {
                    self.fail("C12/count-after-grant", format!("{what}: one chunk was granted but count() went {} -> {}", pre.count, s.count));
                }
            }
            if self.faults_since(pre) > 0 {
                if !self.flags.fault_seen && pre.calls > 0 {
                    self.flags.fault_mid = true;
                }
                self.flags.fault_seen = true;
                self.class("fault_fired");
                // failed chunk creation links nothing
                if s.count != pre.count + g {
                    self.fail("C07/count-after-failure", format!("{what}: a base-allocator call failed; count() went {} -> {} with {g} successful grants", pre.count, s.count));
                }
            } else if self.flags.fault_seen {
                self.flags.ops_after_fault += 1;
            }
        }
        if s.chunks.len() >= 2 {
            self.flags.multi_chunk = true;
        }
        // unused unallocated arena never calls the base allocator
        if !self.used && !info.ga {
            let calls = with_ctx(self.ctx, |c| c.calls);
            if calls > 0 && self.last.count == 0 && pre.map(|p| p.calls == 0).unwrap_or(false) {
                self.fail("C05/unused-called-base", format!("{what}: an unallocated arena that was only probed called the base allocator"));
            }
        }
        self.last = s;
    }

    pub(crate) fn check_stats(&mut self, api: &dyn Api, info: &Info, s: &StatsSnap, what: &str) {
        let claimed = api.x_is_claimed(Route::Own);
        let model_chunks = chunk_map(self.ctx, info);
        // the claimed original reports an empty arena; this handle may be the guard (not claimed)
        if claimed {
            if s.count != 0 || s.size != 0 || s.capacity != 0 || s.allocated != 0 || s.remaining != 0 || s.current.is_some() || !s.chunks.is_empty() {
                self.fail("C10/claimed-zero", format!("{what}: claimed handle reports non-empty statistics {s:?}"));
            }
            return;
        }
        if s.current.is_none() {
            if s.count != 0 || s.size != 0 || s.capacity != 0 || s.allocated != 0 || s.remaining != 0 || !s.chunks.is_empty() {
                self.fail("C10/unallocated-zero", format!("{what}: handle without a current chunk reports {s:?}"));
            }
            if info.ga {
                self.fail("C10/ga-unallocated", format!("{what}: guaranteed-allocated handle has no current chunk"));
            }
            if !model_chunks.is_empty() && self.in_claim == 0 {
                self.fail("C10/count-vs-ledger", format!("{what}: no current chunk but the ledger holds {} live grants", model_chunks.len()));
            }
            return;
        }
        let cur = s.current.as_ref().unwrap();
        if cur.pos < cur.content_start || cur.pos > cur.content_end {
            self.fail("C10/pos-in-range", format!("{what}: position {:#x} outside content {:#x}..{:#x}", cur.pos, cur.content_start, cur.content_end));
        }
        if cur.pos % info.min_align != 0 {
            self.fail("C10/pos-aligned", format!("{what}: position {:#x} not a multiple of the minimum alignment {}", cur.pos, info.min_align));
            self.fail("C18/pos-aligned", format!("{what}: position {:#x} not a multiple of the minimum alignment {}", cur.pos, info.min_align));
        }
        if s.count != s.chunks.len() || s.count != model_chunks.len() {
            self.fail("C10/count-vs-ledger", format!("{what}: count() {} / iterated {} / live grants {}", s.count, s.chunks.len(), model_chunks.len()));
            return;
        }
        let rev: Vec<usize> = s.chunks_rev.iter().rev().map(|c| c.chunk_start).collect();
        let fwd: Vec<usize> = s.chunks.iter().map(|c| c.chunk_start).collect();
        if rev != fwd {
            self.fail("C10/list-symmetry", format!("{what}: small_to_big {fwd:x?} is not the reverse of big_to_small {rev:x?}"));
        }
        let (mut tsize, mut tcap) = (0usize, 0usize);
        for (i, c) in s.chunks.iter().enumerate() {
            tsize += c.size;
            tcap += c.capacity;
            if c.size % 16 != 0 {
                self.fail("C10/size-multiple-16", format!("{what}: chunk {i} size {} not a multiple of 16", c.size));
            }
            let prev = if i > 0 { Some(s.chunks[i - 1].chunk_start) } else { None };
            let next = s.chunks.get(i + 1).map(|c| c.chunk_start);
            if c.prev != prev || c.next != next {
                self.fail("C10/prev-next", format!("{what}: chunk {i} prev/next {:x?}/{:x?} inconsistent with list order {prev:x?}/{next:x?}", c.prev, c.next));
            }
            if i > 0 && c.size + 16 < 2 * s.chunks[i - 1].size {
                self.fail("C12/growth-doubling", format!("{what}: chunk {i} size {} is smaller than twice its predecessor {} less 16", c.size, s.chunks[i - 1].size));
            }
            if i > 0 && c.size <= s.chunks[i - 1].size {
                self.fail("C10/strictly-larger", format!("{what}: chunk {i} size {} not larger than its predecessor {}", c.size, s.chunks[i - 1].size));
            }
            match model_chunks.iter().find(|m| m.grant_ptr == c.chunk_start) {
                None => self.fail("C10/header-in-grant", format!("{what}: chunk {i} starts at {:#x}, which is not the start of a live grant", c.chunk_start)),
                Some(m) => {
                    if c.chunk_end > m.grant_ptr + m.granted {
                        self.fail("C10/header-in-grant", format!("{what}: chunk {i} end {:#x} beyond its grant {:#x}+{}", c.chunk_end, m.grant_ptr, m.granted));
                    }
                    if c.content_start != m.content_start || c.content_end != m.content_end || c.size != m.used {
                        self.fail(
                            "C10/content-range",
                            format!("{what}: chunk {i} reports content {:#x}..{:#x} size {}, the ledger + header mirror give {:#x}..{:#x} size {}", c.content_start, c.content_end, c.size, m.content_start, m.content_end, m.used),
                        );
                        self.fail("C12/size-vs-grant", format!("{what}: chunk {i} size {} != align_size(granted {}) = {}", c.size, m.granted, m.used));
                    }
                    if c.capacity != c.size - info.header_size {
                        self.fail("C10/capacity", format!("{what}: chunk {i} capacity {} != size {} - header {}", c.capacity, c.size, info.header_size));
                    }
                }
            }
        }
        if s.size != tsize || s.capacity != tcap {
            self.fail("C10/totals", format!("{what}: size()/capacity() {}/{} differ from the sums over chunks {tsize}/{tcap}", s.size, s.capacity));
        }
        if s.allocated + s.remaining != s.capacity || s.capacity > s.size {
            self.fail("C10/identity", format!("{what}: allocated {} + remaining {} != capacity {} (size {})", s.allocated, s.remaining, s.capacity, s.size));
        }
        // allocated = current.allocated + capacities of previous chunks
        let idx = s.chunks.iter().position(|c| c.chunk_start == cur.chunk_start);
        match idx {
            None => self.fail("C10/current-in-list", format!("{what}: current chunk {:#x} not in the chunk list", cur.chunk_start)),
            Some(k) => {
                let exp: usize = s.chunks[..k].iter().map(|c| c.capacity).sum::<usize>() + cur.allocated;
                if exp != s.allocated {
                    self.fail("C10/allocated-sum", format!("{what}: allocated() {} != {} (previous capacities + current allocated)", s.allocated, exp));
                }
                if cur.allocated + cur.remaining != cur.capacity {
                    self.fail("C10/chunk-identity", format!("{what}: current chunk allocated {} + remaining {} != capacity {}", cur.allocated, cur.remaining, cur.capacity));
                }
            }
        }
    }

    /// typed statistics == type-erased statistics (through a route and through From)
    pub(crate) fn check_any_stats(&mut self, api: &dyn Api, route: Route, what: &str) {
        let s = api.x_stats();
        let a = api.x_any_stats(route);
        let f = api.x_any_from_stats();
        if a != s {
            self.fail("C10/any-vs-typed", format!("{what}: any_stats() via {route:?} differs from stats():\n any   {a:?}\n typed {s:?}"));
        }
        if f != s {
            self.fail("C10/any-vs-typed", format!("{what}: AnyStats::from(stats) differs from stats():\n any   {f:?}\n typed {s:?}"));
        }
        if self.in_claim > 0 || (self.align_stack.len() > 1 && self.align_stack.last() < self.align_stack.first()) {
            self.flags.stats_in_claim_or_lowered = true;
        }
    }
}
