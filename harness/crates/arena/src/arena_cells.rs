//! Engine A, part 4: the (allocator shape, settings) cells, the top-level owner of the `Bump`,
//! end-of-case ledger checks and the `Engine` implementation.

use std::alloc::Layout;

use bump_scope::settings::{Bool, BumpSettings};
use bump_scope::{BaseAllocator, Bump};

use crate::api::*;
use crate::arena::*;
use crate::arena_scopes::TopOp;
use bsv_core::runner::{CaseReport, CaseResult, Engine};
use bsv_core::talloc::{self, B240, FaultPlan, GrantPolicy, Handle, O32, O64, P, P24, Z, with_ctx};

#[derive(Clone, Debug)]
pub struct Header {
    pub cell: usize,
    pub ma: usize,
    pub policy: GrantPolicy,
    pub ctor: u8,
    pub ctor_arg: usize,
    pub plan: FaultPlan,
    pub congruence: u64,
    pub probe_only: bool,
}

type S<const MA: usize, const UP: bool, const GA: bool, const DE: bool, const SH: bool, const MCS: usize> = BumpSettings<MA, UP, GA, true, DE, SH, MCS>;

fn construct<A, const MA: usize, const UP: bool, const GA: bool, const DE: bool, const SH: bool, const MCS: usize>(
    it: &mut Interp,
    h: &Header,
) -> Option<Bump<A, S<MA, UP, GA, DE, SH, MCS>>>
where
    A: Handle + BaseAllocator<Bool<GA>>,
    bump_scope::settings::MinimumAlignment<MA>: bump_scope::settings::SupportedMinimumAlignment,
{
    let must_try = h.plan.enabled;
    let arg = h.ctor_arg;
    let layout = Layout::from_size_align(arg % 5000, 1 << (arg % 9)).unwrap();
    let what;
    let r: Result<Result<Bump<A, _>, ()>, _> = std::panic::catch_unwind(std::panic::AssertUnwindSafe(|| match h.ctor % 8 {
        0 | 1 => {
            if must_try { Bump::try_new_in(A::new()).map_err(|_| ()) } else { Ok(Bump::new_in(A::new())) }
        }
        2 | 3 => {
            if must_try || h.ctor % 8 == 3 { Bump::try_with_size_in(arg % 20000, A::new()).map_err(|_| ()) } else { Ok(Bump::with_size_in(arg % 20000, A::new())) }
        }
        4 | 5 => {
            if must_try || h.ctor % 8 == 5 { Bump::try_with_capacity_in(layout, A::new()).map_err(|_| ()) } else { Ok(Bump::with_capacity_in(layout, A::new())) }
        }
        _ => {
            if GA && must_try {
                Bump::try_new_in(A::new()).map_err(|_| ())
            } else {
                Ok(Bump::default())
            }
        }
    }));
    what = match h.ctor % 8 {
        0 | 1 => "new_in".to_string(),
        2 | 3 => format!("with_size_in({})", arg % 20000),
        4 | 5 => format!("with_capacity_in({layout:?})"),
        _ => "default()".to_string(),
    };
    it.note(|| format!("construct Bump::{what}"));
    match r {
        Ok(Ok(b)) => {
            Some(b)
        }
        Ok(Err(())) => {
            if with_ctx(0, |c| c.faults_fired) == 0 && !with_ctx(0, |c| c.exhausted) {
                it.class("ctor_err_unexplained");
            }
            None
        }
        Err(p) => {
            it.fail("panic/ctor", format!("Bump::{what} panicked: {}", bsv_core::runner::panic_message(&p)));
            None
        }
    }
}

/// C12: the capacity layout given to with_capacity fits the first chunk without another chunk
fn cap_check(it: &mut Interp, sc: &dyn Api, h: &Header) {
    let arg = h.ctor_arg;
    let layout = Layout::from_size_align(arg % 5000, 1 << (arg % 9)).unwrap();
    let calls = with_ctx(0, |c| c.calls);
    if let Ok((p, _)) = sc.x_allocate(Route::Own, layout, false) {
        let calls2 = with_ctx(0, |c| c.calls);
        if calls2 != calls {
            it.fail("C12/with-capacity-fits", format!("Bump::with_capacity_in({layout:?}): allocating the capacity layout needed another chunk"));
        }
        // give it back (most recent allocation)
        unsafe { sc.x_deallocate(Route::Own, p, layout) };
    }
}

/// rounds of the C03 reset loop (demand per round <= 48 records x 64 KiB, chunks at least double: 2^13 x 512 B suffices)
const RESET_LOOP_ROUNDS: usize = 40;

/// `Bump::with_settings` between two arbitrary settings types (outside the cells' where-clauses, which
/// would pin the guaranteed-allocated parameter)
fn convert<A, S1, S2>(bump: Bump<A, S1>) -> Bump<A, S2>
where
    S1: bump_scope::settings::BumpAllocatorSettings,
    S2: bump_scope::settings::BumpAllocatorSettings,
    A: BaseAllocator<S1::GuaranteedAllocated> + BaseAllocator<S2::GuaranteedAllocated>,
{
    bump.with_settings()
}

/// C18 (last clause), guaranteed-allocated half: `with_settings` to a guaranteed-allocated type panics
/// exactly when no chunk has been allocated yet. Runs on its own arena (literal `false` -> `true`, which the
/// cells' generic where-clauses cannot express).
fn conv_ga<A: Handle, const UP: bool, const DE: bool, const SH: bool, const MCS: usize>(it: &mut Interp, h: &Header) {
    use bump_scope::settings::BumpSettings;
    let bump: Bump<A, BumpSettings<1, UP, false, true, DE, SH, MCS>> = Bump::default();
    let touch = match h.ctor_arg % 4 {
        0 => 0, // never used
        1 => 1, // only zero-sized values and statistics
        2 => 2, // a reserve(0)-style no-op? no: a real allocation
        _ => 3, // allocated, then reset_to_start-like emptiness through a scope
    };
    let mut bump = bump;
    match touch {
        1 => {
            let _ = bump.alloc(());
            let _ = bump.stats().allocated();
        }
        2 => {
            let _ = bump.try_alloc(5u8);
        }
        3 => {
            bump.scoped(|s| {
                let _ = s.try_alloc(5u64);
            });
        }
        _ => {}
    }
    let unallocated = bump.stats().count() == 0;
    it.note(|| format!("Bump::with_settings::<GUARANTEED_ALLOCATED = true>() after history {touch}; count() == 0: {unallocated}"));
    let r = std::panic::catch_unwind(std::panic::AssertUnwindSafe(move || {
        let b2: Bump<A, BumpSettings<1, UP, true, true, DE, SH, MCS>> = bump.with_settings();
        let n = b2.stats().count();
        drop(b2);
        n
    }));
    match r {
        Ok(n) => {
            if unallocated {
                it.fail("C18/conversion-panics", format!("with_settings to a guaranteed-allocated type succeeded on an unallocated arena (count() afterwards {n})"));
            }
            it.class("conversion_accepted");
        }
        Err(p) => {
            if !unallocated {
                it.fail("C18/conversion-panics", format!("with_settings to a guaranteed-allocated type panicked on an allocated arena: {}", bsv_core::runner::panic_message(&p)));
            }
            it.class("conversion_rejected");
        }
    }
}

macro_rules! top_fn {
    ($name:ident, $MA:literal) => {
        fn $name<A, const UP: bool, const GA: bool, const DE: bool, const SH: bool, const MCS: usize>(
            mut bump: Bump<A, S<$MA, UP, GA, DE, SH, MCS>>,
            it: &mut Interp,
        ) where
            A: Handle + BaseAllocator<Bool<GA>>,
        {
            it.align_stack.clear();
            it.align_stack.push($MA);
            {
                let sc = bump.as_mut_scope();
                it.after_op(sc.x_as_api(), None, true, false, "top-level entry");
            }
            loop {
                if it.stop {
                    break;
                }
                let top = {
                    let sc = bump.as_mut_scope();
                    it.run(sc, usize::MAX, 0)
                };
                let Some(TopOp { kind, rec }) = top else { break };
                let r = Rec(it.recs[rec]);
                match kind {
                    Kind::Reset => {
                        it.note(|| "Bump::reset()".to_string());
                        it.used = true;
                        let before = it.last.clone();
                        bump.reset();
                        it.model.kill_all();
                        it.cps.clear();
                        it.vec = None;
                        let live: Vec<usize> = with_ctx(0, |c| c.live_grants().map(|g| g.ptr).collect());
                        if let Some(last) = before.chunks.last() {
                            if live.len() != 1 || live[0] != last.chunk_start {
                                it.fail("C05/reset-keeps-largest", format!("reset(): live grants {live:x?}, expected exactly the largest chunk {:#x}", last.chunk_start));
                            }
                        } else if !live.is_empty() {
                            it.fail("C05/reset-keeps-largest", format!("reset() of an unallocated arena left grants {live:x?}"));
                        }
                        let sc = bump.as_mut_scope();
                        it.after_op(sc.x_as_api(), None, true, false, "reset()");
                        if !it.stop && (it.last.allocated != 0 || it.last.count > 1) {
                            it.fail("C03/reset-empty", format!("after reset(): allocated {} count {}", it.last.allocated, it.last.count));
                        }
                        it.flags.pending_scope_exit = true;
                    }
                    Kind::ResetToStart => {
                        it.note(|| "Bump::reset_to_start()".to_string());
                        let d = with_ctx(0, |c| c.dealloc_calls);
                        let before = it.last.clone();
                        bump.reset_to_start();
                        it.model.kill_all();
                        it.cps.clear();
                        it.vec = None;
                        let sc = bump.as_mut_scope();
                        it.after_op(sc.x_as_api(), None, true, false, "reset_to_start()");
                        if with_ctx(0, |c| c.dealloc_calls) != d {
                            it.fail("C05/scope-exit-released", "reset_to_start() released a chunk".to_string());
                        }
                        if !it.stop {
                            let first = it.last.chunks.first().map(|c| c.header);
                            if it.last.allocated != 0 || it.last.current.as_ref().map(|c| c.header) != first || it.last.count != before.count {
                                it.fail("C03/reset-to-start", format!("after reset_to_start(): allocated {} current {:x?} first {:x?} count {} (before {})", it.last.allocated, it.last.current.as_ref().map(|c| c.header), first, it.last.count, before.count));
                            }
                        }
                        it.flags.pending_scope_exit = true;
                    }
                    Kind::RawRoundTrip => {
                        it.note(|| "into_raw() / from_raw()".to_string());
                        let before = it.last.clone();
                        let p = bump.into_raw();
                        bump = unsafe { Bump::from_raw(p) };
                        let sc = bump.as_mut_scope();
                        it.after_op(sc.x_as_api(), None, false, false, "into_raw/from_raw");
                        if !it.stop && it.last != before {
                            it.fail("C05/raw-round-trip", "statistics changed across into_raw/from_raw".to_string());
                        }
                    }
                    _ => {
                        // with_settings: any minimum alignment (raising aligns the position)
                        let n = 1usize << (r.b(10) % 5);
                        it.note(|| format!("Bump::with_settings::<MIN_ALIGN = {n}>()"));
                        if n < $MA {
                            it.flags.lowered = true;
                        } else if n > $MA {
                            it.flags.raised = true;
                        }
                        it.cps.clear();
                        let before = it.last.clone();
                        let r = std::panic::catch_unwind(std::panic::AssertUnwindSafe(|| match n {
                            1 => top1::<A, UP, GA, DE, SH, MCS>(bump.with_settings(), it),
                            2 => top2::<A, UP, GA, DE, SH, MCS>(bump.with_settings(), it),
                            4 => top4::<A, UP, GA, DE, SH, MCS>(bump.with_settings(), it),
                            8 => top8::<A, UP, GA, DE, SH, MCS>(bump.with_settings(), it),
                            _ => top16::<A, UP, GA, DE, SH, MCS>(bump.with_settings(), it),
                        }));
                        let _ = before;
                        if let Err(p) = r {
                            it.fail("panic/with-settings", format!("with_settings panicked: {}", bsv_core::runner::panic_message(&p)));
                        }
                        return;
                    }
                }
            }
            // C03 reset-loop rule: repeating {workload; reset()} settles on one chunk and then needs no memory
            if it.reset_loop && !it.plan_enabled && !it.stop && !it.exhausted() && it.fails.is_empty() {
                it.no_replay = true;
                let mut log: Vec<usize> = Vec::new();
                let mut quiet = 0usize;
                let mut rounds = 0usize;
                let mut skipped = false;
                for round in 0..RESET_LOOP_ROUNDS {
                    it.note(|| format!("reset loop: reset(), then round {round}"));
                    bump.reset();
                    it.model.kill_all();
                    it.foreign = None;
                    it.model.foreign.clear();
                    it.cps.clear();
                    it.vec = None;
                    {
                        let sc = bump.as_mut_scope();
                        it.after_op(sc.x_as_api(), None, true, false, "reset() [reset loop]");
                    }
                    if it.stop {
                        break;
                    }
                    if it.last.allocated != 0 || it.last.count > 1 {
                        it.fail("C03/reset-empty", format!("after reset() [reset loop round {round}]: allocated {} count {}", it.last.allocated, it.last.count));
                        break;
                    }
                    let g0 = with_ctx(0, |c| c.grants.len());
                    it.pos = 0;
                    it.feed_overrun = false;
                    if round == 0 {
                        it.size_log = Some(Vec::new());
                    } else {
                        it.size_feed = Some((log.clone(), 0));
                    }
                    loop {
                        let sc = bump.as_mut_scope();
                        // top-level-only operations are left out of the repeated workload
                        if it.run(sc, usize::MAX, 0).is_none() || it.stop {
                            break;
                        }
                    }
                    if round == 0 {
                        log = it.size_log.take().unwrap_or_default();
                    }
                    it.size_feed = None;
                    if it.stop {
                        break;
                    }
                    if it.exhausted() || it.feed_overrun {
                        skipped = true;
                        break;
                    }
                    rounds += 1;
                    let g1 = with_ctx(0, |c| c.grants.len());
                    if g1 == g0 {
                        quiet += 1;
                        if quiet >= 4 {
                            break;
                        }
                    } else if quiet > 0 {
                        it.fail("C03/reset-loop-stable", format!("reset loop: round {round} obtained {} chunk(s) from the base allocator although an earlier identical round needed none", g1 - g0));
                        break;
                    }
                }
                if skipped {
                    it.class("reset_loop_skipped");
                } else if !it.stop && it.fails.is_empty() {
                    if quiet == 0 {
                        it.fail("C03/reset-loop-converges", format!("reset loop: {rounds} rounds of the same workload each needed new chunks after reset()"));
                    }
                    it.class("reset_loop_done");
                }
            }
            // C18 (last clause): conversions that need an allocated / unclaimed arena panic exactly then
            if it.conv_check == 2 && !it.stop && it.fails.is_empty() {
                it.foreign = None;
                it.model.kill_all();
                it.vec = None;
                it.cps.clear();
                {
                    // a forgotten claim guard leaves the arena claimed for good (safe code; the memory is leaked)
                    let forget = it.recs.len() % 2 == 0;
                    let had_chunks = bump.stats().count() > 0;
                    if forget {
                        std::mem::forget(bump.claim());
                        if !bump.is_claimed() {
                            it.fail("C14/claimed-flag", "is_claimed() false although the claim guard was forgotten, not dropped".to_string());
                        }
                        if bump.try_alloc(7u32).is_ok() {
                            it.fail("C14/request-fails", "[claimed for good] try_alloc(7u32) succeeded".to_string());
                        }
                        if bump.as_mut_scope().try_by_value().is_ok() {
                            it.fail("C14/request-fails", "[claimed for good] try_by_value() succeeded".to_string());
                        }
                        it.expect_leak = had_chunks;
                    }
                    it.note(|| format!("Bump::with_settings::<CLAIMABLE = false>() on an arena that is claimed: {forget}"));
                    let r = std::panic::catch_unwind(std::panic::AssertUnwindSafe(move || {
                        let b2: Bump<A, bump_scope::settings::BumpSettings<$MA, UP, GA, false, DE, SH, MCS>> = convert(bump);
                        let ok = b2.try_alloc(1u8).is_ok();
                        drop(b2);
                        ok
                    }));
                    match r {
                        Ok(ok) => {
                            if forget {
                                it.fail("C18/conversion-panics", "with_settings to a non-claimable type succeeded on a claimed arena".to_string());
                            } else if !ok {
                                it.fail("C18/conversion-panics", "the converted (non-claimable) arena cannot allocate".to_string());
                            }
                            it.class("conversion_accepted");
                        }
                        Err(p) => {
                            if !forget {
                                it.fail("C18/conversion-panics", format!("with_settings to a non-claimable type panicked on an unclaimed arena: {}", bsv_core::runner::panic_message(&p)));
                            }
                            it.class("conversion_rejected");
                        }
                    }
                }
                return;
            }
            // end of case: the arena is dropped
            it.foreign = None;
            it.model.kill_all();
            drop(bump);
        }
    };
}

top_fn!(top1, 1);
top_fn!(top2, 2);
top_fn!(top4, 4);
top_fn!(top8, 8);
top_fn!(top16, 16);

fn start<A, const UP: bool, const GA: bool, const DE: bool, const SH: bool, const MCS: usize>(it: &mut Interp, h: &Header)
where
    A: Handle + BaseAllocator<Bool<GA>>,
{
    macro_rules! go {
        ($MA:literal, $top:ident) => {
            if let Some(b) = construct::<A, $MA, UP, GA, DE, SH, MCS>(it, h) {
                if matches!(h.ctor % 8, 4 | 5) {
                    cap_check(it, b.as_scope(), h);
                }
                $top::<A, UP, GA, DE, SH, MCS>(b, it)
            }
        };
    }
    match h.ma {
        1 => go!(1, top1),
        2 => go!(2, top2),
        4 => go!(4, top4),
        8 => go!(8, top8),
        _ => go!(16, top16),
    }
}

type CellFn = fn(&mut Interp, &Header);
pub struct Cell {
    pub name: &'static str,
    pub f: CellFn,
    pub ga: bool,
    pub home: usize,
    /// only for cells that are not guaranteed-allocated
    pub conv: Option<CellFn>,
}

macro_rules! conv_of {
    ($A:ident, $H:literal, $UP:literal, false, $DE:literal, $SH:literal, $MCS:literal) => {
        Some(conv_ga::<$A<0, $H>, $UP, $DE, $SH, $MCS> as CellFn)
    };
    ($A:ident, $H:literal, $UP:literal, true, $DE:literal, $SH:literal, $MCS:literal) => {
        None
    };
}

macro_rules! cell {
    ($A:ident, $H:literal, $UP:literal, $GA:tt, $DE:literal, $SH:literal, $MCS:literal) => {
        Cell {
            name: concat!(stringify!($A), " home=", stringify!($H), " up=", stringify!($UP), " ga=", stringify!($GA), " de=", stringify!($DE), " sh=", stringify!($SH), " mcs=", stringify!($MCS)),
            f: start::<$A<0, $H>, $UP, $GA, $DE, $SH, $MCS>,
            home: $H,
            ga: $GA,
            conv: conv_of!($A, $H, $UP, $GA, $DE, $SH, $MCS),
        }
    };
}

/// covering design of DESIGN.md section 3 (28 families x 5 minimum alignments)
pub fn cells() -> Vec<Cell> {
    vec![
        cell!(Z, 1, true, true, true, true, 512),
        cell!(Z, 2, false, true, true, true, 512),
        cell!(Z, 4, true, true, true, false, 512),
        cell!(Z, 8, false, true, true, false, 512),
        cell!(Z, 16, true, true, false, true, 512),
        cell!(Z, 1, false, true, false, true, 512),
        cell!(Z, 2, true, true, false, false, 512),
        cell!(Z, 4, false, true, false, false, 512),
        cell!(Z, 8, true, false, true, true, 512),
        cell!(Z, 16, false, false, true, true, 512),
        cell!(Z, 32, true, false, false, false, 512),
        cell!(Z, 32, false, false, false, false, 512),
        cell!(Z, 32, true, true, true, true, 0),
        cell!(Z, 32, false, true, true, true, 0),
        cell!(Z, 32, true, true, true, true, 4096),
        cell!(Z, 32, false, true, true, true, 4096),
        cell!(P, 4, true, true, true, true, 512),
        cell!(P, 16, false, true, true, true, 512),
        cell!(P, 32, true, false, true, true, 512),
        cell!(P, 32, false, false, true, true, 512),
        cell!(O64, 8, true, true, true, true, 512),
        cell!(O64, 2, false, true, true, true, 512),
        cell!(O64, 32, true, false, true, true, 512),
        cell!(O64, 32, false, false, true, true, 512),
        cell!(P24, 32, true, true, true, true, 512),
        cell!(P24, 32, false, true, true, true, 512),
        cell!(O32, 32, true, true, true, true, 512),
        cell!(O32, 32, false, true, true, true, 512),
        cell!(B240, 32, true, true, true, true, 512),
        cell!(B240, 32, false, true, true, true, 512),
    ]
}

pub fn decode_header(h: &[u8], mix: Mix, ncells: usize) -> Header {
    let b = |i: usize| h.get(i).copied().unwrap_or(0);
    // non-Z shapes are weighted up: the header size/alignment is what differs
    let cell = {
        let x = b(0) as usize;
        if matches!(mix, Mix::C10 | Mix::C12 | Mix::C05) && x % 2 == 1 { 16 + (x / 2) % (ncells - 16) } else { (x / 2) % ncells }
    };
    let ma = if b(1) % 8 < 5 { 0 } else { 1usize << (b(1) / 8 % 5) }; // 0 = the cell's home alignment
    let policy = match b(2) % 10 {
        0..=3 => GrantPolicy::Exact,
        4 | 5 => GrantPolicy::Plus(1 + b(3) as usize % 64),
        6 => GrantPolicy::RoundTo(64),
        7 => GrantPolicy::RoundTo(4096),
        8 => GrantPolicy::Plus(16 * (1 + b(3) as usize % 8)),
        _ => GrantPolicy::Plus(65536 + b(3) as usize),
    };
    let faulty = match mix {
        Mix::C07 => b(6) % 8 != 0,
        Mix::C05 => b(6) % 3 == 0,
        _ => false,
    };
    let plan = if faulty {
        match b(6) / 8 % 4 {
            0 | 1 => FaultPlan { mask: 1u64 << (b(7) % 12), from: None, enabled: true },
            2 => FaultPlan { mask: 0, from: Some((b(7) % 12) as u64), enabled: true },
            _ => FaultPlan { mask: u64::from_le_bytes([b(8), b(9), b(10), b(11), 0, 0, 0, 0]) & u64::from_le_bytes([b(12), b(13), b(14), b(15), 0, 0, 0, 0]), from: None, enabled: true },
        }
    } else {
        FaultPlan::default()
    };
    Header {
        cell,
        ma,
        policy,
        ctor: b(4),
        ctor_arg: b(5) as usize | (b(7) as usize) << 8 | (b(3) as usize) << 16,
        plan,
        congruence: u64::from_le_bytes([b(8), b(9), b(10), b(11), b(12), b(13), b(14), b(15)]),
        probe_only: b(2) >= 230,
    }
}

pub struct ArenaEngine {
    pub mix: Mix,
    pub prop: &'static str,
    pub max_recs: usize,
}

impl ArenaEngine {
    pub fn new(prop: &'static str) -> Self {
        let mix = match prop {
            "C01" => Mix::C01,
            "C02" => Mix::C02,
            "C03" => Mix::C03,
            "C05" => Mix::C05,
            "C07" => Mix::C07,
            "C10" => Mix::C10,
            "C12" => Mix::C12,
            "C13" => Mix::C13,
            "C14" => Mix::C14,
            "C18" => Mix::C18,
            _ => Mix::C01,
        };
        ArenaEngine { mix, prop, max_recs: 48 }
    }

    fn nontrivial(&self, it: &Interp, h: &Header, shape: &str) -> bool {
        let f = &it.flags;
        match self.mix {
            Mix::C01 => it.model.max_live >= 3 && (f.realloc_nonlast || f.chunk_switch_live || f.scope_exit_then_alloc || f.split_then_op || f.prepared_commit),
            Mix::C02 => f.realloc_with_others || f.zeroed_dirty,
            Mix::C03 => f.scope_interesting_then_alloc,
            Mix::C05 => f.chunks_created >= 3 || (f.fault_mid && f.ops_after_fault > 0) || h.policy != GrantPolicy::Exact,
            Mix::C07 => f.fault_mid && f.ops_after_fault >= 4,
            Mix::C10 => (f.multi_chunk && !shape.starts_with('Z')) || f.stats_in_claim_or_lowered,
            Mix::C12 => f.c12_interesting,
            Mix::C13 => f.reclaim_hit && f.reclaim_ineligible,
            Mix::C14 => f.claim_ops_guard >= 2 && f.claim_ops_orig >= 2 && f.alloc_after_claim,
            Mix::C18 => f.lowered && f.raised && f.lowered_switch_or_unwind,
        }
    }
}

impl Engine for ArenaEngine {
    fn name(&self) -> &'static str {
        "A/arena"
    }
    fn max_records(&self) -> usize {
        self.max_recs
    }
    fn rule(&self) -> String {
        let common = "generator: 16-byte header (allocator shape x settings cell out of 28 families x 5 minimum alignments, grant policy exact/+k/round-up/huge, constructor, fault plan, chunk address congruence seed) + up to 48 16-byte operation records decoded against the model state (never filtered; inapplicable records become Nop); \
            operations: allocate(_zeroed)/grow(_zeroed)/shrink/deallocate through 9 routes (handle, &, WithoutDealloc, WithoutShrink, both nestings, 3 trait objects), split, typed fast paths, shrink_slice, prepare+commit (fwd/rev, core and typed), reserve, checkpoint/reset_to, scoped/scope_guard/scoped_aligned/aligned/borrow_mut_with_settings/by_value (nested, exit by return or unwinding), claim with interleaved use of the original, alloc_try_with(_mut), allocation helpers, a long-lived BumpVec, foreign blocks, reset/reset_to_start/into_raw+from_raw/with_settings at top level; distinct by hash of the executed operation list. ";
        let nt = match self.mix {
            Mix::C01 => "non-trivial: >= 3 simultaneously live blocks AND (realloc of a block not adjacent to the position | chunk switch with live blocks | scope exit followed by allocation | split followed by an operation | commit of a prepared allocation)",
            Mix::C02 => "non-trivial: a reallocation while >= 2 other blocks were live, or a zeroed request served from memory known to be dirty",
            Mix::C03 => "non-trivial: a scope whose workload switched chunks, nested >= 2 levels or unwound, followed by further allocation",
            Mix::C05 => "non-trivial: >= 3 chunks created, or a failed grant in the middle followed by more operations, or an over-granting policy; the arena is always dropped at the end",
            Mix::C07 => "non-trivial: a fault fired after the first base-allocator call and >= 4 more operations followed",
            Mix::C10 => "non-trivial: >= 2 chunks with a non-zero-sized or over-aligned allocator shape, or statistics probed inside a claim / lowered-alignment region",
            Mix::C12 => "non-trivial: an operation created a chunk with header alignment > 16 or with a grant extra that is not a multiple of 16",
            Mix::C13 => "non-trivial: the reclaim-eligible situation and an ineligible one (older block / non-multiple size / opt-out) both occurred",
            Mix::C14 => "non-trivial: >= 2 operations on each side while claimed and an allocation on the original after the claim ended",
            Mix::C18 => "non-trivial: a lowering and a raising region in one case with a chunk switch or an unwind inside the lowered one",
        };
        format!("{common}{nt}")
    }
    fn required_classes(&self) -> Vec<(&'static str, f64)> {
        let mut v: Vec<(&'static str, f64)> = vec![("chunk_created", 0.2), ("shape_nonzero", 0.1), ("down", 0.3), ("up", 0.3)];
        match self.mix {
            Mix::C02 => v.push(("zeroed_over_dirty", 0.01)),
            Mix::C03 => {
                v.push(("scope_replayed", 0.05));
                v.push(("scope_unwound", 0.05));
            }
            Mix::C07 => v.push(("fault_fired", 0.2)),
            Mix::C13 => v.push(("reclaim_eligible", 0.1)),
            Mix::C14 => v.push(("claim_done", 0.3)),
            Mix::C18 => {
                v.push(("alignment_lowered", 0.1));
                v.push(("alignment_raised", 0.1));
            }
            _ => {}
        }
        v
    }
    fn assumptions(&self) -> Vec<String> {
        vec![
            "operations respect the documented unsafe contracts (DESIGN.md section 1)".into(),
            "the harness's mirror of ChunkHeader<A>'s layout (cross-checked against stats sizes)".into(),
            "base allocator = instrumented slab allocator of harness/src/talloc.rs".into(),
        ]
    }
    fn run_case(&self, bytes: &[u8], want_desc: bool) -> CaseResult {
        let cells = cells();
        let (hb, _) = bytes.split_at(bytes.len().min(16));
        let h = decode_header(hb, self.mix, cells.len());
        if self.mix != Mix::C07 {
            return self.run_once(bytes, h, want_desc, &cells).0;
        }
        // C07: learn the number n of base-allocator calls of the fault-free history, then fail
        // each call index individually (DESIGN.md C07), plus the header's own plan
        let mut base = h.clone();
        base.plan = FaultPlan { mask: 0, from: None, enabled: true };
        let (mut res, n) = self.run_once(bytes, base, want_desc, &cells);
        let mut runs = 1u64;
        let mut plans: Vec<FaultPlan> = (0..n.min(10)).map(|i| FaultPlan { mask: 1u64 << i, from: None, enabled: true }).collect();
        if n > 10 {
            plans.push(FaultPlan { mask: 1u64 << (10 + (h.congruence % (n - 10).min(50)) ), from: None, enabled: true });
        }
        if h.plan.enabled {
            plans.push(h.plan);
        }
        for p in plans {
            if !res.failures.is_empty() {
                break;
            }
            let mut hh = h.clone();
            hh.plan = p;
            let (r, _) = self.run_once(bytes, hh, false, &cells);
            runs += 1;
            res.report.nontrivial |= r.report.nontrivial;
            res.report.ops += r.report.ops;
            res.report.nops += r.report.nops;
            for c in r.report.classes {
                if !res.report.classes.contains(&c) {
                    res.report.classes.push(c);
                }
            }
            if !r.failures.is_empty() {
                let mut fs = r.failures;
                for f in fs.iter_mut() {
                    f.msg = format!("[fault plan {p:?}] {}", f.msg);
                }
                res.failures = fs;
                // description of the failing run
                if want_desc {
                    let mut hh = h.clone();
                    hh.plan = p;
                    res.report.desc = self.run_once(bytes, hh, true, &cells).0.report.desc;
                }
            }
        }
        res.report.counters.push(("fault_runs", runs));
        res
    }
}

impl ArenaEngine {
    /// one execution of the case under the given header; returns the result and the number of
    /// base-allocator calls made
    fn run_once(&self, bytes: &[u8], h: Header, want_desc: bool, cells: &[Cell]) -> (CaseResult, u64) {
        let (_, rest) = bytes.split_at(bytes.len().min(16));
        let recs: Vec<&[u8]> = rest.chunks(16).collect();
        let cell = &cells[h.cell];
        let mut h = h;
        if h.ma == 0 {
            h.ma = if cell.home <= 16 { cell.home } else { 1usize << (h.congruence % 5) };
        }
        talloc::with_ctx(0, |c| c.reset(h.policy, h.congruence, h.plan));
        talloc::with_ctx(1, |c| c.reset(GrantPolicy::Exact, 0x1234_5678, FaultPlan::default()));
        let mut it = Interp::new(recs, self.mix, want_desc);
        it.plan_enabled = h.plan.enabled;
        it.probe_only = h.probe_only && !cell.ga && h.ctor % 8 >= 6;
        it.reset_loop = self.mix == Mix::C03 && h.ctor_arg % 16 == 3;
        it.conv_check = if matches!(self.mix, Mix::C18 | Mix::C14) && !h.plan.enabled { [0, 0, 0, 0, 0, 1, 1, 2][(h.ctor_arg >> 5) % 8] } else { 0 };
        let po = it.probe_only;
        it.note(|| format!("cell [{}] min_align={} policy={:?} plan={:?} probe_only={}", cell.name, h.ma, h.policy, h.plan, po));
        (cell.f)(&mut it, &h);
        if it.conv_check == 1 && !it.stop && it.fails.is_empty() {
            if let Some(c) = cell.conv {
                c(&mut it, &h);
            }
        }
        // end-of-case ledger rules (C05)
        let (live, handles, errs, mem) = with_ctx(0, |c| (c.live_grants().count(), c.handles_live, std::mem::take(&mut c.errors), c.check_memory(true)));
        for e in errs {
            let id = e.split(':').next().unwrap_or("C05/ledger").to_string();
            it.fail(&id, format!("at drop: {e}"));
        }
        if live != 0 && !it.expect_leak {
            it.fail("C05/leak", format!("{live} grant(s) still outstanding after the Bump was dropped"));
        }
        if handles != 0 && !it.expect_leak {
            it.fail("C05/handle-balance", format!("{handles} base-allocator handle(s) alive after the Bump was dropped (clone/drop imbalance)"));
        }
        if let Some(m) = mem {
            let id = m.split(':').next().unwrap_or("C05/memory").to_string();
            it.fail(&id, format!("at end of case: {m}"));
        }
        let shape = cell.name.split(' ').next().unwrap_or("Z");
        it.class(if cell.name.contains("up=true") { "up" } else { "down" });
        if !shape.starts_with('Z') {
            it.class("shape_nonzero");
        }
        if h.policy != GrantPolicy::Exact {
            it.class("over_granting");
        }
        if h.plan.enabled {
            it.class("fault_plan");
        }
        if it.probe_only {
            it.class("probe_only");
        }
        if with_ctx(0, |c| c.exhausted) {
            it.class("slab_exhausted");
        }
        if it.flags.multi_chunk {
            it.class("multi_chunk");
        }
        let nontrivial = self.nontrivial(&it, &h, shape);
        let calls = with_ctx(0, |c| c.calls);
        (CaseResult {
            report: CaseReport {
                nontrivial,
                hash: it.hash ^ (h.cell as u64) << 56 ^ (h.ma as u64) << 48,
                classes: it.classes.iter().copied().collect(),
                ops: it.ops,
                nops: it.nops,
                desc: it.log.take(),
                counters: vec![("operations", it.ops)],
            },
            failures: it.fails,
        }, calls)
    }
}
