//! Engine A, part 2: operations that only need `&self` on the handle.

use std::alloc::Layout;

use crate::api::*;
use crate::arena::*;
use bsv_core::model::*;
use bsv_core::talloc::{self, with_ctx};

fn layout(size: usize, align: usize) -> Layout {
    Layout::from_size_align(size, align).expect("generator produced an invalid layout")
}

/// element type whose arrays have exactly this alignment (for shrink_slice / dealloc of boxes)
fn elem_for(size: usize, align: usize) -> Option<(Elem, usize)> {
    let e = match align {
        1 => {
            if size % 3 == 0 && size % 2 == 1 {
                Elem::A3
            } else {
                Elem::U8
            }
        }
        4 => Elem::U32,
        8 => Elem::U64,
        32 => Elem::Al32,
        _ => return None,
    };
    let es = e.layout().size();
    if size % es != 0 {
        return None;
    }
    Some((e, size / es))
}

impl<'c> Interp<'c> {
    /// C07 (a): outcome under an injected failure
    pub(crate) fn judge_fault<T>(&mut self, pre: &OpPre, out: &Outcome<T>, what: &str) {
        if matches!(out, Outcome::Err) {
            self.errs += 1;
        }
        if self.faults_since(pre) > 0 {
            match out {
                Outcome::Ok(_) => self.fail("C07/ok-despite-failure", format!("{what}: a base-allocator call failed during the operation but it returned success")),
                Outcome::Panic(m) => self.fail("C07/panic-on-failure", format!("{what}: a base-allocator call failed and the call panicked instead of returning an error: {m}")),
                Outcome::Err => {}
            }
        } else if let Outcome::Panic(m) = out {
            self.fail("panic/op", format!("{what}: unexpected panic: {m}"));
        }
    }

    fn served_from_new_chunk(&mut self, api: &dyn Api, pre: &OpPre, addr: usize, size: usize, what: &str) {
        if self.grants_since(pre) == 1 {
            let info = api.x_info();
            let newest = with_ctx(self.ctx, |c| c.grants.last().cloned());
            if let Some(g) = newest {
                let c = chunk_of_grant(&g, &info);
                if size > 0 && !(addr >= c.content_start && addr + size <= c.content_end) {
                    self.fail("C12/served-from-new-chunk", format!("{what}: a chunk was created for this request but the block {addr:#x}+{size} is not inside it ({:#x}..{:#x})", c.content_start, c.content_end));
                }
                let extra = g.granted - g.req.size();
                if info.header_align > 16 || extra % 16 != 0 {
                    self.flags.c12_interesting = true;
                }
            }
        }
    }

    pub(crate) fn fix_vec(&mut self) {
        if let Some((p, _, cap, _)) = self.vec {
            if cap > 0 && !self.model.blocks.contains_key(&p) {
                self.vec = None;
            }
        }
    }

    fn pick_block(&self, raw: usize) -> Option<Block> {
        let n = self.model.count();
        if n == 0 {
            return None;
        }
        // the vec buffer is owned by the vec
        let b = self.model.nth(pick(raw, n))?.clone();
        if let Some((p, _, cap, _)) = self.vec {
            if cap > 0 && p == b.addr {
                return None;
            }
        }
        Some(b)
    }

    fn pick_last_block(&self, info: &Info) -> Option<Block> {
        let c = self.last.current.as_ref()?;
        let b = if info.up {
            self.model.blocks.range(..c.pos).next_back().map(|(_, b)| b).filter(|b| b.addr + b.size == c.pos)
        } else {
            self.model.blocks.get(&c.pos)
        }?;
        if let Some((p, _, cap, _)) = self.vec {
            if cap > 0 && p == b.addr {
                return None;
            }
        }
        Some(b.clone())
    }

    pub(crate) fn op_allocate(&mut self, api: &dyn Api, r: &Rec) {
        let info = api.x_info();
        let align = self.align_from(r);
        let overflow = r.b(4) == 0xFF;
        let size = if overflow { (isize::MAX as usize - (align - 1)) / align * align - (r.u32(6) % 4096) * align } else { self.size_from(r, align, &info) };
        let zeroed = r.b(11) & 2 != 0;
        let route = self.route_from(r);
        let what = format!("allocate{}({size}, align {align}) via {route:?}", if zeroed { "_zeroed" } else { "" });
        self.note(|| what.clone());
        let l = layout(size, align);
        let pre = self.pre(api, true);
        let out = guard(|| api.x_allocate(route, l, zeroed));
        self.judge_fault(&pre, &out, &what);
        if let Outcome::Ok((p, len)) = out {
            if overflow {
                self.fail("C07/overflow-ok", format!("{what}: an impossible request succeeded"));
                return;
            }
            if len < size {
                self.fail("C01/size", format!("{what}: returned length {len} < requested {size}"));
            }
            if self.check_placement(api, &what, p, size.max(len.min(size)), align) {
                if zeroed {
                    let s = unsafe { std::slice::from_raw_parts(p as *const u8, len) };
                    if let Some(i) = s.iter().position(|b| *b != 0) {
                        self.fail("C02/zeroed", format!("{what}: byte {i} of the zeroed block is {:#04x}", s[i]));
                    }
                    if let Some((lo, snap)) = &pre.free {
                        let dirty = (0..len).any(|i| {
                            let a = p + i;
                            a >= *lo && a - lo < snap.len() && snap[a - lo] != 0 && snap[a - lo] != talloc::FRESH
                        });
                        if dirty {
                            self.flags.zeroed_dirty = true;
                            self.class("zeroed_over_dirty");
                        }
                    }
                }
                self.check_free(&pre, &[(p, p + len)], &what);
                self.served_from_new_chunk(api, &pre, p, size, &what);
                let seed = self.seed_for(r);
                self.register(p, size, size, align, if zeroed { Origin::Zeroed } else { Origin::Allocate }, seed);
            }
        } else if matches!(out, Outcome::Err) && !overflow && self.faults_since(&pre) == 0 && !self.exhausted() {
            self.class("unexplained_err");
        }
        self.after_op(api, Some(&pre), false, true, &what);
    }

    pub(crate) fn op_grow(&mut self, api: &dyn Api, r: &Rec) {
        let info = api.x_info();
        let Some(b) = self.pick_block(r.u16(2)) else { return self.nop() };
        let delta = {
            let d = self.size_from(r, b.align, &info);
            if r.b(11) & 8 != 0 { d % 64 } else { d }
        };
        let new_size = b.size + delta;
        let new_align = if r.b(10) % 4 == 0 { self.align_from(&Rec(&[0, 0, 0, 0, 0, 0, 0, 0, 0, 0, r.b(12)])) } else { b.align };
        let zeroed = r.b(11) & 2 != 0;
        let route = self.route_from(r);
        let was_last = self.is_last(&b, &info);
        let others = self.model.count() - 1;
        let what = format!(
            "grow{}(#{} {:#x} {}@{} -> {new_size}@{new_align}) via {route:?} last={was_last}",
            if zeroed { "_zeroed" } else { "" },
            b.id,
            b.addr,
            b.size,
            b.align
        );
        self.note(|| what.clone());
        let eligible = info.up
            && was_last
            && b.size % info.min_align == 0
            && b.addr % new_align == 0
            && self.last.current.as_ref().map(|c| new_size <= c.content_end - b.addr).unwrap_or(false);
        let pre = self.pre(api, true);
        let out = guard(|| unsafe { api.x_grow(route, b.addr, layout(b.size, b.align), layout(new_size, new_align), zeroed) });
        self.judge_fault(&pre, &out, &what);
        if let Outcome::Ok((p, len)) = out {
            if b.size == 0 {
                self.model.remove_id(b.id);
            } else {
                self.model.remove_addr(b.addr);
            }
            if len < new_size {
                self.fail("C01/size", format!("{what}: returned length {len} < requested {new_size}"));
            }
            if self.check_placement(api, &what, p, new_size, new_align) {
                if let Some(i) = check_pattern(p, b.init.min(b.size), b.seed) {
                    self.fail("C02/realloc-prefix", format!("{what}: byte {i} of the old contents was not preserved at {p:#x}"));
                }
                if zeroed {
                    let s = unsafe { std::slice::from_raw_parts((p + b.size) as *const u8, new_size - b.size) };
                    if let Some(i) = s.iter().position(|x| *x != 0) {
                        self.fail("C02/grow-zeroed", format!("{what}: byte {} of the new tail is {:#04x}, not zero", b.size + i, s[i]));
                    }
                }
                self.check_free(&pre, &[(p, p + len.max(new_size)), (b.addr, b.addr + b.size)], &what);
                if eligible {
                    self.flags.reclaim_hit = true;
                    if p != b.addr {
                        self.fail("C13/grow-in-place", format!("{what}: the most recent allocation with room behind it was moved to {p:#x}"));
                    }
                } else {
                    self.flags.reclaim_ineligible = true;
                }
                if !was_last {
                    self.flags.realloc_nonlast = true;
                }
                if others >= 2 {
                    self.flags.realloc_with_others = true;
                }
                self.served_from_new_chunk(api, &pre, p, new_size, &what);
                let seed = self.seed_for(r);
                self.register(p, new_size, new_size, new_align, Origin::Grow, seed);
                self.fix_vec();
            }
        }
        self.after_op(api, Some(&pre), false, true, &what);
    }

    pub(crate) fn op_shrink(&mut self, api: &dyn Api, r: &Rec) {
        let info = api.x_info();
        let Some(b) = self.pick_block(r.u16(2)) else { return self.nop() };
        let new_size = pick(r.u16(4), b.size + 1);
        let new_align = if r.b(10) % 4 == 0 { self.align_from(&Rec(&[0, 0, 0, 0, 0, 0, 0, 0, 0, 0, r.b(12)])) } else { b.align };
        let route = self.route_from(r);
        let was_last = self.is_last(&b, &info);
        let others = self.model.count() - 1;
        let fits = b.addr % new_align == 0;
        let what = format!("shrink(#{} {:#x} {}@{} -> {new_size}@{new_align}) via {route:?} last={was_last} fits={fits}", b.id, b.addr, b.size, b.align);
        self.note(|| what.clone());
        let opt_out = !info.sh || route.without_shrink();
        let pre = self.pre(api, true);
        let out = guard(|| unsafe { api.x_shrink(route, b.addr, layout(b.size, b.align), layout(new_size, new_align)) });
        self.judge_fault(&pre, &out, &what);
        let mut moved = false;
        if let Outcome::Ok((p, len)) = out {
            if b.size == 0 {
                self.model.remove_id(b.id);
            } else {
                self.model.remove_addr(b.addr);
            }
            if len < new_size {
                self.fail("C01/size", format!("{what}: returned length {len} < requested {new_size}"));
            }
            moved = p != b.addr;
            if self.check_placement(api, &what, p, new_size, new_align) {
                if let Some(i) = check_pattern(p, b.init.min(new_size), b.seed) {
                    self.fail("C02/realloc-prefix", format!("{what}: byte {i} of the surviving prefix was not preserved at {p:#x}"));
                }
                self.check_free(&pre, &[(p, p + new_size), (b.addr, b.addr + b.size)], &what);
                if !was_last && fits && moved {
                    self.fail("C13/shrink-nonlast", format!("{what}: shrinking an older block with fitting alignment moved it to {p:#x}"));
                }
                if !was_last {
                    self.flags.realloc_nonlast = true;
                    self.flags.reclaim_ineligible = true;
                } else {
                    self.flags.reclaim_hit = true;
                }
                if others >= 2 {
                    self.flags.realloc_with_others = true;
                }
                let seed = self.seed_for(r);
                self.register(p, new_size, new_size, new_align, Origin::Shrink, seed);
                self.fix_vec();
            }
        } else if matches!(out, Outcome::Err) && fits && self.faults_since(&pre) == 0 {
            self.class("shrink_err_fitting");
        }
        let may_decrease = was_last && !opt_out;
        self.after_op(api, Some(&pre), may_decrease, true, &what);
        if !was_last && fits && !moved && !self.stop {
            // reclaims nothing: position and allocated unchanged
            if self.last.allocated != pre.allocated || self.last.current.as_ref().map(|c| c.pos) != pre.pos {
                self.fail("C13/shrink-nonlast", format!("{what}: shrinking an older block changed allocated() {} -> {} or the position", pre.allocated, self.last.allocated));
            }
        }
    }

    pub(crate) fn op_dealloc(&mut self, api: &dyn Api, r: &Rec) {
        let info = api.x_info();
        let Some(b) = self.pick_block(r.u16(2)) else { return self.nop() };
        let route = self.route_from(r);
        self.dealloc_block(api, &info, &b, route);
    }

    fn dealloc_block(&mut self, api: &dyn Api, info: &Info, b: &Block, route: Route) -> (OpPre, bool) {
        let was_last = self.is_last(b, info);
        let what = format!("deallocate(#{} {:#x} {}@{}) via {route:?} last={was_last}", b.id, b.addr, b.size, b.align);
        self.note(|| what.clone());
        let opt_out = !info.de || route.without_dealloc();
        let pre = self.pre(api, true);
        let out = guard(|| {
            unsafe { api.x_deallocate(route, b.addr, layout(b.size, b.align)) };
            Ok(())
        });
        self.judge_fault(&pre, &out, &what);
        self.model.remove_id(b.id);
        self.fix_vec();
        self.check_free(&pre, &[(b.addr, b.addr + b.size)], &what);
        let may_decrease = was_last && !opt_out;
        self.after_op(api, Some(&pre), may_decrease, true, &what);
        if !self.stop && (opt_out || !was_last) {
            if self.last.allocated != pre.allocated || self.last.current.as_ref().map(|c| c.pos) != pre.pos {
                let id = if opt_out { "C13/dealloc-optout" } else { "C13/dealloc-nonlast" };
                self.fail(id, format!("{what}: allocated() {} -> {} / position {:x?} -> {:x?} although nothing may be reclaimed", pre.allocated, self.last.allocated, pre.pos, self.last.current.as_ref().map(|c| c.pos)));
            }
        }
        let eligible = was_last && !opt_out && b.size > 0 && b.size % info.min_align == 0;
        (pre, eligible)
    }

    /// deallocate the most recent block, then request the same layout again
    pub(crate) fn op_dealloc_realloc(&mut self, api: &dyn Api, r: &Rec) {
        let info = api.x_info();
        let b = if r.b(11) & 16 == 0 { self.pick_last_block(&info).or_else(|| self.pick_block(r.u16(2))) } else { self.pick_block(r.u16(2)) };
        let Some(b) = b else { return self.nop() };
        let route = self.route_from(r);
        let (_, eligible) = self.dealloc_block(api, &info, &b, route);
        if self.stop {
            return;
        }
        let what = format!("re-allocate({}@{}) after deallocate, eligible={eligible}", b.size, b.align);
        self.note(|| what.clone());
        let pre = self.pre(api, true);
        let route2 = if r.b(12) & 1 == 0 { Route::Own } else { route };
        let out = guard(|| api.x_allocate(route2, layout(b.size, b.align), false));
        self.judge_fault(&pre, &out, &what);
        if let Outcome::Ok((p, len)) = out {
            if self.check_placement(api, &what, p, b.size, b.align) {
                if eligible {
                    self.flags.reclaim_hit = true;
                    self.class("reclaim_eligible");
                    if p != b.addr {
                        self.fail("C13/reclaim-same-address", format!("{what}: the space of the most recent allocation {:#x} was not reused, got {p:#x}", b.addr));
                    }
                } else {
                    self.flags.reclaim_ineligible = true;
                }
                self.check_free(&pre, &[(p, p + len)], &what);
                let seed = self.seed_for(r);
                self.register(p, b.size, b.size, b.align, Origin::Allocate, seed);
            }
        }
        self.after_op(api, Some(&pre), false, true, &what);
    }

    pub(crate) fn op_split(&mut self, api: &dyn Api, r: &Rec) {
        let Some(b) = self.pick_block(r.u16(2)) else { return self.nop() };
        if b.size < 2 * b.align || b.init != b.size {
            return self.nop();
        }
        let units = b.size / b.align;
        let k = (1 + pick(r.u16(4), units - 1)) * b.align;
        let what = format!("split(#{} {:#x} {}@{} at {k})", b.id, b.addr, b.size, b.align);
        self.note(|| what.clone());
        self.model.remove_addr(b.addr);
        let s1 = self.seed_for(r);
        let s2 = s1 ^ 0xABCDEF;
        self.register(b.addr, k, k, b.align, Origin::Split, s1);
        self.register(b.addr + k, b.size - k, b.size - k, b.align, Origin::Split, s2);
        self.flags.pending_split = true;
        self.after_op(api, None, false, false, &what);
    }

    pub(crate) fn op_typed(&mut self, api: &dyn Api, r: &Rec) {
        let info = api.x_info();
        let e = Elem::ALL[r.b(10) as usize % Elem::ALL.len()];
        let el = e.layout();
        let budget = self.size_from(r, el.align(), &info);
        let n = if el.size() == 0 { r.u16(6) % 1000 } else { budget / el.size() };
        let overflow = r.b(4) == 0xFE && el.size() > 0;
        let route = self.route_from(r);
        let req = match r.b(5) % 4 {
            0 => TypedReq::Layout(layout(budget / el.align().max(1) * el.align().max(1), el.align())),
            1 => TypedReq::Sized(e),
            2 => TypedReq::Slice(e, if overflow { usize::MAX / el.size() - (r.u16(6) % 3) } else { n }),
            _ => TypedReq::SliceFor(e, n.min(4096)),
        };
        let (size, align) = match req {
            TypedReq::Layout(l) => (l.size(), l.align()),
            TypedReq::Sized(_) => (el.size(), el.align()),
            TypedReq::Slice(_, n) => (n.saturating_mul(el.size()), el.align()),
            TypedReq::SliceFor(_, n) => (n * el.size(), el.align()),
        };
        let is_overflow = matches!(req, TypedReq::Slice(..)) && overflow;
        let try_ = is_overflow || self.try_flag(r, size);
        let what = format!("typed {req:?} try={try_} via {route:?}");
        self.note(|| what.clone());
        self.used = true;
        let pre = self.pre(api, true);
        let out = guard(|| api.x_typed_alloc(route, req, try_));
        self.judge_fault(&pre, &out, &what);
        if let Outcome::Ok(p) = out {
            if is_overflow {
                self.fail("C07/overflow-ok", format!("{what}: an impossible request succeeded"));
                return;
            }
            if self.check_placement(api, &what, p, size, align) && size > 0 {
                self.check_free(&pre, &[(p, p + size)], &what);
                self.served_from_new_chunk(api, &pre, p, size, &what);
                let seed = self.seed_for(r);
                self.register(p, size, size, align, Origin::Typed, seed);
            }
        }
        self.after_op(api, Some(&pre), false, true, &what);
    }

    pub(crate) fn op_shrink_slice(&mut self, api: &dyn Api, r: &Rec) {
        let info = api.x_info();
        let Some(b) = self.pick_block(r.u16(2)) else { return self.nop() };
        let Some((e, old_len)) = elem_for(b.size, b.align) else { return self.nop() };
        if b.size == 0 {
            return self.nop();
        }
        let es = e.layout().size();
        let new_len = pick(r.u16(4), old_len + 1);
        let route = self.route_from(r);
        let was_last = self.is_last(&b, &info);
        let opt_out = !info.sh || route.without_shrink();
        let what = format!("shrink_slice::<{e:?}>(#{} {:#x}, {old_len} -> {new_len}) via {route:?} last={was_last}", b.id, b.addr);
        self.note(|| what.clone());
        let pre = self.pre(api, true);
        let out = guard(|| Ok(unsafe { api.x_shrink_slice(route, e, b.addr, old_len, new_len) }));
        self.judge_fault(&pre, &out, &what);
        if let Outcome::Ok(res) = out {
            self.model.remove_addr(b.addr);
            let p = res.unwrap_or(b.addr);
            let new_size = new_len * es;
            if self.check_placement(api, &what, p, new_size, b.align) {
                if let Some(i) = check_pattern(p, b.init.min(new_size), b.seed) {
                    self.fail("C02/realloc-prefix", format!("{what}: byte {i} of the surviving prefix was not preserved at {p:#x}"));
                }
                self.check_free(&pre, &[(p, p + new_size), (b.addr, b.addr + b.size)], &what);
                if !was_last && p != b.addr {
                    self.fail("C13/shrink-nonlast", format!("{what}: shrinking an older block moved it to {p:#x}"));
                }
                let seed = self.seed_for(r);
                self.register(p, new_size, new_size, b.align, Origin::Shrink, seed);
                self.fix_vec();
            }
        }
        self.after_op(api, Some(&pre), was_last && !opt_out, true, &what);
    }

    fn check_prepared_range(&mut self, api: &dyn Api, what: &str, s: usize, e: usize, need: usize, align: usize) -> bool {
        if e < s || e - s < need {
            self.fail("C01/prepared-range", format!("{what}: prepared range {s:#x}..{e:#x} smaller than requested {need}"));
            return false;
        }
        if s % align != 0 || e % align != 0 {
            self.fail("C01/prepared-range", format!("{what}: prepared range {s:#x}..{e:#x} ends not aligned to {align}"));
            return false;
        }
        if e > s {
            let info = api.x_info();
            let chunks = chunk_map(self.ctx, &info);
            if !chunks.iter().any(|c| s >= c.content_start && e <= c.content_end) {
                self.fail("C01/prepared-range", format!("{what}: prepared range {s:#x}..{e:#x} not inside one chunk {chunks:x?}"));
                return false;
            }
            if let Some(o) = self.model.overlap(s, e - s) {
                let o = o.clone();
                self.fail("C01/prepared-range", format!("{what}: prepared range {s:#x}..{e:#x} contains live block #{} {:#x}+{}", o.id, o.addr, o.size));
                return false;
            }
        }
        true
    }

    pub(crate) fn op_prepare_commit(&mut self, api: &dyn Api, r: &Rec) {
        let info = api.x_info();
        let align = self.align_from(r);
        let size = self.size_from(r, align, &info) / align * align;
        let rev = r.b(11) & 2 != 0;
        let commit = r.b(11) & 4 == 0;
        let route = self.route_from(r);
        let what = format!("prepare_allocation{}({size}@{align}) commit={commit} via {route:?}", if rev { "_rev" } else { "" });
        self.note(|| what.clone());
        let pre = self.pre(api, true);
        let out = guard(|| api.x_prepare(route, layout(size, align), rev));
        self.judge_fault(&pre, &out, &what);
        if let Outcome::Ok((s, e)) = out {
            if self.check_prepared_range(api, &what, s, e, size, align) {
                // C15-style: preparing does not move the position inside a chunk
                if self.grants_since(&pre) == 0 {
                    let st = api.x_stats();
                    if st.current.as_ref().map(|c| c.header) == pre.cur && st.current.as_ref().map(|c| c.pos) != pre.pos {
                        self.fail("C01/prepare-moved-position", format!("{what}: preparing moved the position {:x?} -> {:x?}", pre.pos, st.current.as_ref().map(|c| c.pos)));
                    }
                }
                if commit {
                    let calign = align >> (r.b(12) % 3).min(align.trailing_zeros() as u8);
                    let csize = pick(r.u16(13), size / calign + 1) * calign;
                    let seed = self.seed_for(r);
                    let stage = if rev { e - csize } else { s };
                    write_pattern(stage, csize, seed);
                    let p = unsafe { api.x_commit(route, layout(csize, calign), (s, e), rev) };
                    let what2 = format!("{what} -> {s:#x}..{e:#x}; commit {csize}@{calign} -> {p:#x}");
                    self.note(|| what2.clone());
                    if p < s || p + csize > e {
                        self.fail("C01/commit-inside-prepared", format!("{what2}: committed block outside the prepared range"));
                    } else if self.check_placement(api, &what2, p, csize, calign) {
                        if let Some(i) = check_pattern(p, csize, seed) {
                            self.fail("C02/commit-contents", format!("{what2}: byte {i} of the staged data is wrong after commit"));
                        }
                        self.check_free(&pre, &[(s, e)], &what2);
                        self.served_from_new_chunk(api, &pre, p, csize, &what2);
                        self.register(p, csize, csize, calign, Origin::Prepared, seed);
                        self.flags.prepared_commit = true;
                    }
                }
            }
        }
        self.after_op(api, Some(&pre), false, true, &what);
    }

    pub(crate) fn op_prepare_slice(&mut self, api: &dyn Api, r: &Rec) {
        let info = api.x_info();
        let e = Elem::ALL[r.b(10) as usize % 5]; // never the zero-sized type
        let el = e.layout();
        let n = self.size_from(r, el.align(), &info) / el.size();
        let rev = r.b(11) & 2 != 0;
        let commit = r.b(11) & 4 == 0;
        let route = self.route_from(r);
        let try_ = self.try_flag(r, n * el.size());
        let what = format!("prepare_slice_allocation{}::<{e:?}>({n}) try={try_} commit={commit} via {route:?}", if rev { "_rev" } else { "" });
        self.note(|| what.clone());
        let pre = self.pre(api, true);
        let out = guard(|| api.x_prepare_slice(route, e, n, rev, try_));
        self.judge_fault(&pre, &out, &what);
        if let Outcome::Ok((ptr, cap)) = out {
            if cap < n {
                self.fail("C01/prepared-range", format!("{what}: capacity {cap} < requested {n}"));
            }
            let (s, en) = if rev { (ptr - cap * el.size(), ptr) } else { (ptr, ptr + cap * el.size()) };
            if self.check_prepared_range(api, &what, s, en, n * el.size(), el.align()) && commit {
                let len = pick(r.u16(13), cap.min(n + 64) + 1);
                let bytes = len * el.size();
                let seed = self.seed_for(r);
                let stage = if rev { ptr - bytes } else { ptr };
                write_pattern(stage, bytes, seed);
                let (p, l) = unsafe { api.x_commit_slice(route, e, ptr, len, cap, rev) };
                let what2 = format!("{what} -> cap {cap} at {ptr:#x}; commit len {len} -> {p:#x}");
                self.note(|| what2.clone());
                if l != len {
                    self.fail("C01/size", format!("{what2}: committed slice has length {l}"));
                }
                if bytes > 0 && (p < s || p + bytes > en) {
                    self.fail("C01/commit-inside-prepared", format!("{what2}: committed block outside the prepared range {s:#x}..{en:#x}"));
                } else if self.check_placement(api, &what2, p, bytes, el.align()) {
                    if let Some(i) = check_pattern(p, bytes, seed) {
                        self.fail("C02/commit-contents", format!("{what2}: byte {i} of the staged data is wrong after commit"));
                    }
                    self.check_free(&pre, &[(s, en)], &what2);
                    if bytes > 0 {
                        self.served_from_new_chunk(api, &pre, p, bytes, &what2);
                        self.register(p, bytes, bytes, el.align(), Origin::Prepared, seed);
                        self.flags.prepared_commit = true;
                    }
                }
            }
        }
        self.after_op(api, Some(&pre), false, true, &what);
    }

    pub(crate) fn op_reserve(&mut self, api: &dyn Api, r: &Rec) {
        let info = api.x_info();
        let huge = r.b(4) == 0xFD;
        let n = if huge { usize::MAX - r.u16(6) } else { self.size_from(r, 1, &info) };
        let route = self.route_from(r);
        let try_ = huge || self.try_flag(r, n);
        let what = format!("reserve({n}) try={try_} via {route:?}");
        self.note(|| what.clone());
        self.used = true;
        let pre = self.pre(api, true);
        let out = guard(|| api.x_reserve(route, n, try_));
        self.judge_fault(&pre, &out, &what);
        if let Outcome::Ok(()) = out {
            if huge {
                self.fail("C07/overflow-ok", format!("{what}: an impossible reservation succeeded"));
                return;
            }
            let st = api.x_stats();
            if st.remaining < n {
                self.fail("C12/reserve-postcondition", format!("{what}: remaining() {} < reserved {n}", st.remaining));
            }
            self.check_free(&pre, &[], &what);
        }
        self.after_op(api, Some(&pre), false, true, &what);
    }

    pub(crate) fn op_checkpoint(&mut self, api: &dyn Api, r: &Rec) {
        if self.cps.len() >= 8 {
            return self.nop();
        }
        let route = self.route_from(r);
        let info = api.x_info();
        let cp = api.x_checkpoint(route);
        let snap = (self.last.allocated, self.last.current.as_ref().map(|c| c.header), self.last.current.as_ref().map(|c| c.pos));
        let seq = self.model.next_seq();
        self.note(|| format!("checkpoint via {route:?} -> {snap:x?}"));
        self.cps.push(CpRec { cp, seq, min_align: info.min_align, snap, scope_level: self.nested_levels });
        self.after_op(api, None, false, false, "checkpoint");
    }

    pub(crate) fn op_reset_to(&mut self, api: &dyn Api, r: &Rec, floor: usize) {
        if self.cps.len() <= floor {
            return self.nop();
        }
        let i = floor + pick(r.u16(2), self.cps.len() - floor);
        let c = self.cps[i].clone();
        let route = self.route_from(r);
        let what = format!("reset_to(checkpoint {i} {:x?}) via {route:?}", c.snap);
        self.note(|| what.clone());
        let pre = self.pre(api, false);
        let out = guard(|| {
            unsafe { api.x_reset_to(route, c.cp) };
            Ok(())
        });
        self.judge_fault(&pre, &out, &what);
        self.model.kill_since(c.seq);
        self.fix_vec();
        self.cps.truncate(i + 1);
        self.after_op(api, Some(&pre), true, false, &what);
        if self.stop {
            return;
        }
        self.check_restored(api, c.snap, pre.deallocs, "C03/reset-to-restore", &what);
        self.flags.pending_scope_exit = true;
    }

    /// C03 snapshot comparison (entry state vs. now)
    pub(crate) fn check_restored(&mut self, api: &dyn Api, snap: (usize, Option<usize>, Option<usize>), deallocs: u64, id: &str, what: &str) {
        let info = api.x_info();
        let s = &self.last;
        let now = (s.allocated, s.current.as_ref().map(|c| c.header), s.current.as_ref().map(|c| c.pos));
        if snap.1.is_some() {
            if now != snap {
                self.fail(id, format!("{what}: state (allocated, chunk, position) at entry {snap:x?} != after exit {now:x?}"));
            }
        } else if let Some(cur) = s.current.clone() {
            // entry state was unallocated: first chunk, empty, allocated() == 0
            let first = s.chunks.first().map(|c| c.header);
            let empty = if info.up { cur.content_start } else { cur.content_end };
            // content_end may not be min-aligned? it is 16-aligned by construction
            if Some(cur.header) != first || cur.pos != empty || s.allocated != 0 {
                self.fail(id, format!("{what}: scope was entered unallocated; after exit current chunk {:#x} (first {:x?}) position {:#x} (empty {:#x}) allocated {}", cur.header, first, cur.pos, empty, s.allocated));
            }
        }
        let d = with_ctx(self.ctx, |c| c.dealloc_calls);
        if d != deallocs {
            self.fail("C05/scope-exit-released", format!("{what}: {} chunk(s) were released by a scope exit / reset_to", d - deallocs));
        }
    }

    pub(crate) fn op_boxed(&mut self, api: &dyn Api, r: &Rec) {
        let info = api.x_info();
        let e = Elem::ALL[r.b(10) as usize % Elem::ALL.len()];
        let es = e.layout().size().max(1);
        let n = (self.size_from(r, e.layout().align(), &info) / es).min(300);
        let tn = n.min(200);
        let req = match r.b(5) % 16 {
            _ if self.probe_only => BoxReq::Alloc(Elem::Unit),
            0 => BoxReq::Alloc(e),
            1 => BoxReq::AllocWith(e),
            2 => BoxReq::AllocDefault(e),
            3 => BoxReq::AllocUninit(e),
            4 => BoxReq::SliceCopy(e, n),
            5 => BoxReq::SliceClone(e, n),
            6 => BoxReq::SliceFill(e, n),
            7 => BoxReq::SliceFillWith(e, n),
            8 => BoxReq::UninitSlice(e, n),
            9 => BoxReq::Str(tn),
            10 => BoxReq::Fmt(tn),
            11 => BoxReq::CStr(tn),
            12 => BoxReq::CStrFromStr(tn),
            13 => BoxReq::CStrFmt(tn),
            14 => BoxReq::Iter(tn, r.b(12)),
            _ => BoxReq::IterExact(tn),
        };
        let route = self.route_from(r);
        let try_ = self.try_flag(r, 4 * n * es + 1024);
        let what = format!("helper {req:?} try={try_} via {route:?}");
        self.note(|| what.clone());
        if !self.probe_only {
            self.used = true;
        }
        let pre = self.pre(api, false);
        let seed = self.seed_for(r);
        let out = guard(|| api.x_boxed(route, req, seed, try_));
        self.judge_fault(&pre, &out, &what);
        if let Outcome::Ok(o) = out {
            if !o.value_ok {
                self.fail("C17/value-result", format!("{what}: the returned value does not hold the requested contents"));
            }
            if self.check_placement(api, &what, o.ptr, o.size, o.align) && o.size > 0 {
                self.register(o.ptr, o.size, o.size, o.align, Origin::Boxed, seed);
            }
        }
        self.after_op(api, Some(&pre), true, false, &what);
    }

    pub(crate) fn op_dealloc_box(&mut self, api: &dyn Api, r: &Rec) {
        let info = api.x_info();
        let Some(b) = self.pick_block(r.u16(2)) else { return self.nop() };
        let Some((e, len)) = elem_for(b.size, b.align) else { return self.nop() };
        if b.size == 0 {
            return self.nop();
        }
        let route = self.route_from(r);
        let was_last = self.is_last(&b, &info);
        let opt_out = !info.de || route.without_dealloc();
        let what = format!("dealloc(BumpBox<[{e:?}; {len}]> #{} {:#x}) via {route:?} last={was_last}", b.id, b.addr);
        self.note(|| what.clone());
        let pre = self.pre(api, true);
        let out = guard(|| {
            unsafe { api.x_dealloc_box(route, b.addr, e, Some(len)) };
            Ok(())
        });
        self.judge_fault(&pre, &out, &what);
        self.model.remove_addr(b.addr);
        self.check_free(&pre, &[(b.addr, b.addr + b.size)], &what);
        self.after_op(api, Some(&pre), was_last && !opt_out, true, &what);
        if !self.stop && (opt_out || !was_last) && self.last.allocated != pre.allocated {
            self.fail("C13/dealloc-nonlast", format!("{what}: allocated() {} -> {} although nothing may be reclaimed", pre.allocated, self.last.allocated));
        }
    }

    pub(crate) fn op_vec(&mut self, api: &dyn Api, r: &Rec) {
        let (p0, len0, cap0, seed0) = self.vec.unwrap_or((0, 0, 0, self.seed_for(r)));
        let op = r.b(4) % 9;
        let op = if op == 5 || op == 8 { 3 } else { op };
        let n = 1 + r.u16(6) % 40;
        let route = self.route_from(r);
        let what = format!("vec op {op} n={n} on BumpVec<u64>(ptr {p0:#x} len {len0} cap {cap0}) via {route:?}");
        self.note(|| what.clone());
        self.used = true;
        // elements pushed in this op are make_val(seed0, index)
        let pre = self.pre(api, false);
        let out = guard(|| Ok(unsafe { api.x_vec_op(route, (p0, len0, cap0), op, n, seed0) }));
        match &out {
            Outcome::Ok((_, true)) => {}
            Outcome::Ok((_, false)) => {
                if self.faults_since(&pre) == 0 && !self.exhausted() {
                    self.class("unexplained_err");
                }
            }
            _ => {}
        }
        if let Outcome::Panic(m) = &out {
            self.fail("panic/op", format!("{what}: unexpected panic: {m}"));
        }
        if let Outcome::Ok(((p, len, cap), ok)) = out {
            if self.faults_since(&pre) > 0 && ok {
                self.fail("C07/ok-despite-failure", format!("{what}: a base-allocator call failed but the vector operation reported success"));
            }
            let old = if cap0 > 0 { self.model.remove_addr(p0) } else { None };
            if op == 4 {
                self.vec = None;
            } else {
                if !ok && (p, len, cap) != (p0, len0, cap0) && !matches!(op, 3 | 6 | 7) {
                    self.fail("C07/collection-state-after-failure", format!("{what}: failed operation changed the vector: ({p0:#x},{len0},{cap0}) -> ({p:#x},{len},{cap})"));
                }
                if len > cap {
                    self.fail("C08/len-le-cap", format!("{what}: len {len} > capacity {cap}"));
                }
                if cap > 0 && self.check_placement(api, &what, p, cap * 8, 8) {
                    // old contents preserved
                    if let Some(o) = &old {
                        if let Some(i) = check_pattern(p, o.init.min(len * 8), o.seed) {
                            self.fail("C02/vec-contents", format!("{what}: byte {i} of the vector contents changed"));
                        }
                    }
                    // new elements
                    for i in len0.min(len)..len {
                        let v = unsafe { ((p + i * 8) as *const u64).read() };
                        let exp = {
                            let mut x = [0u8; 8];
                            for (k, b) in x.iter_mut().enumerate() {
                                *b = val_bytes(seed0, i * 8 + k);
                            }
                            u64::from_ne_bytes(x)
                        };
                        if v != exp {
                            self.fail("C02/vec-contents", format!("{what}: element {i} is {v:#x}, expected {exp:#x}"));
                            break;
                        }
                    }
                    let seed = self.seed_for(r) ^ len as u64;
                    self.register(p, cap * 8, len * 8, 8, Origin::VecBuf, seed);
                }
                self.vec = Some((p, len, cap, seed0));
            }
        }
        self.after_op(api, Some(&pre), true, false, &what);
        // C13: with SHRINKS = false no shrink operation gives memory back
        if matches!(op, 2 | 6 | 7) && !api.x_info().sh && !self.stop && self.last.allocated < pre.allocated {
            self.fail("C13/shrink-optout", format!("{what}: SHRINKS = false but allocated() went from {} to {}", pre.allocated, self.last.allocated));
        }
    }

    pub(crate) fn op_foreign(&mut self, api: &dyn Api, r: &Rec) {
        use bump_scope::alloc::Allocator;
        let info = api.x_info();
        if self.foreign.is_none() {
            self.foreign = Some(bump_scope::Bump::new_in(<talloc::Z<1> as talloc::Handle>::new()));
        }
        let sub = r.b(4) % 4;
        if sub == 0 || self.model.foreign.is_empty() {
            if self.model.foreign.len() >= 4 {
                return self.nop();
            }
            let align = self.align_from(r).min(64);
            let size = 1 + r.u16(6) % 200;
            let f = self.foreign.as_ref().unwrap();
            let Ok(p) = f.allocate(layout(size, align)) else { return self.nop() };
            let addr = p.cast::<u8>().as_ptr() as usize;
            let seed = self.seed_for(r);
            write_pattern(addr, size, seed);
            let b = self.model.new_block(addr, size, size, align, Origin::Foreign, seed);
            self.note(|| format!("foreign allocate {size}@{align} -> {addr:#x}"));
            self.model.foreign.push(b);
            return;
        }
        let i = pick(r.u16(2), self.model.foreign.len());
        let b = self.model.foreign[i].clone();
        let route = self.route_from(r);
        let pre = self.pre(api, true);
        match sub {
            1 => {
                let what = format!("deallocate(foreign {:#x} {}@{}) via {route:?}", b.addr, b.size, b.align);
                self.note(|| what.clone());
                let out = guard(|| {
                    unsafe { api.x_deallocate(route, b.addr, layout(b.size, b.align)) };
                    Ok(())
                });
                self.judge_fault(&pre, &out, &what);
                self.model.foreign.remove(i);
                self.check_free(&pre, &[], &what);
                self.after_op(api, Some(&pre), false, true, &what);
                if !self.stop && self.last.allocated != pre.allocated {
                    self.fail("C13/dealloc-nonlast", format!("{what}: deallocating a foreign block changed allocated()"));
                }
            }
            2 => {
                let new_size = b.size + r.u16(6) % 300;
                let what = format!("grow(foreign {:#x} {}@{} -> {new_size}) via {route:?}", b.addr, b.size, b.align);
                self.note(|| what.clone());
                let out = guard(|| unsafe { api.x_grow(route, b.addr, layout(b.size, b.align), layout(new_size, b.align), false) });
                self.judge_fault(&pre, &out, &what);
                if let Outcome::Ok((p, _len)) = out {
                    self.model.foreign.remove(i);
                    if self.check_placement(api, &what, p, new_size, b.align) {
                        if let Some(k) = check_pattern(p, b.size, b.seed) {
                            self.fail("C02/realloc-prefix", format!("{what}: byte {k} of the old contents was not preserved"));
                        }
                        self.check_free(&pre, &[(p, p + new_size)], &what);
                        let seed = self.seed_for(r);
                        self.register(p, new_size, new_size, b.align, Origin::Grow, seed);
                    }
                }
                self.after_op(api, Some(&pre), false, true, &what);
            }
            _ => {
                let new_size = pick(r.u16(6), b.size + 1);
                let what = format!("shrink(foreign {:#x} {}@{} -> {new_size}) via {route:?}", b.addr, b.size, b.align);
                self.note(|| what.clone());
                let out = guard(|| unsafe { api.x_shrink(route, b.addr, layout(b.size, b.align), layout(new_size, b.align)) });
                self.judge_fault(&pre, &out, &what);
                if let Outcome::Ok((p, _len)) = out {
                    if p != b.addr {
                        self.fail("C13/shrink-nonlast", format!("{what}: shrinking a foreign block with fitting alignment moved it to {p:#x}"));
                    }
                    self.model.foreign[i].size = new_size;
                    self.model.foreign[i].init = new_size.min(b.init);
                }
                self.after_op(api, Some(&pre), false, true, &what);
            }
        }
        let _ = info;
    }

    pub(crate) fn op_stats_probe(&mut self, api: &dyn Api, r: &Rec) {
        let route = Route::ALL[r.b(1) as usize % 9];
        self.note(|| format!("stats probe via {route:?}"));
        self.check_any_stats(api, route, "stats probe");
        if api.x_is_claimed(route) {
            self.fail("C14/not-claimed", "is_claimed() is true on an unclaimed handle".to_string());
        }
        let has = self.last.current.is_some();
        if api.x_allocator_is_some() != has {
            self.fail("C10/allocator-option", format!("allocator().is_some() != has a chunk ({has})"));
        }
        self.after_op(api, None, false, false, "stats probe");
    }

    pub(crate) fn nop(&mut self) {
        self.nops += 1;
        self.ops = self.ops.saturating_sub(1);
    }
}
