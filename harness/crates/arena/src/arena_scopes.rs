//! Engine A, part 3: scope-shaped operations (closures / guards), claims, the run loop.

use std::panic::{AssertUnwindSafe, catch_unwind, resume_unwind};

use crate::api::*;
use crate::arena::*;
use bsv_core::model::*;
use bsv_core::runner::panic_message;
use bsv_core::talloc::with_ctx;

/// Panicking methods reached through a trait object used to abort (handle_alloc_error) on a claimed
/// allocator; fixed in /repo (known_findings.json, C14). With the fix they unwind like the typed paths,
/// so the combination is generated.
pub const DYN_CLAIMED_UNWINDS: bool = true;

pub struct ScopeEntry {
    pub seq_mark: u64,
    pub snap: (usize, Option<usize>, Option<usize>),
    pub count: usize,
    pub size: usize,
    pub cps_len: usize,
    pub deallocs: u64,
    pub calls: u64,
    pub sig: Vec<(usize, usize, usize)>,
    pub vec: Option<(usize, usize, usize, u64)>,
    pub chunks: usize,
    pub depth: usize,
    pub nested: usize,
    pub align_len: usize,
    pub in_claim: usize,
}

/// what the run loop hands back to the top level
#[derive(Clone, Copy, Debug, PartialEq, Eq)]
pub struct TopOp {
    pub kind: Kind,
    pub rec: usize,
}

impl<'c> Interp<'c> {
    fn entry(&mut self) -> ScopeEntry {
        let s = &self.last;
        ScopeEntry {
            seq_mark: self.model.next_seq(),
            snap: (s.allocated, s.current.as_ref().map(|c| c.header), s.current.as_ref().map(|c| c.pos)),
            count: s.count,
            size: s.size,
            cps_len: self.cps.len(),
            deallocs: with_ctx(self.ctx, |c| c.dealloc_calls),
            calls: with_ctx(self.ctx, |c| c.calls),
            sig: self.model.signature(),
            vec: self.vec,
            chunks: s.chunks.len(),
            depth: self.depth,
            nested: self.nested_levels,
            align_len: self.align_stack.len(),
            in_claim: self.in_claim,
        }
    }

    /// restore interpreter bookkeeping after a nested handle ended (normally or by unwinding)
    fn leave(&mut self, e: &ScopeEntry) {
        self.depth = e.depth;
        self.nested_levels = e.nested;
        self.align_stack.truncate(e.align_len);
        self.in_claim = e.in_claim;
        self.cps.truncate(e.cps_len);
    }

    /// run `k` records on an inner handle
    fn inner(&mut self, api: &mut dyn ApiMut, k: usize, what: &str) {
        self.depth += 1;
        self.nested_levels += 1;
        if self.depth > self.flags.max_depth {
            self.flags.max_depth = self.depth;
        }
        self.align_stack.push(api.x_info().min_align);
        // C18: the position is aligned at entry of the region
        self.after_op(api.x_as_api(), None, true, false, what);
        let limit = (self.pos + k).min(self.recs.len());
        let floor = self.cps.len();
        let _ = self.run(api, limit, floor);
        self.align_stack.pop();
        self.depth -= 1;
        self.nested_levels -= 1;
    }

    /// `body` runs the library call that takes the closure. Returns true if it unwound with our marker.
    fn call_scope(&mut self, what: &str, body: &mut dyn FnMut(&mut Self)) -> bool {
        let r = catch_unwind(AssertUnwindSafe(|| body(self)));
        match r {
            Ok(()) => false,
            Err(p) => {
                if p.is::<ScopeUnwind>() {
                    self.flags.unwound = true;
                    self.class("scope_unwound");
                    true
                } else {
                    let m = panic_message(&p);
                    self.fail("panic/scope", format!("{what}: unexpected panic: {m}"));
                    false
                }
            }
        }
    }

    fn exit_scope(&mut self, api: &dyn Api, e: &ScopeEntry, restore: bool, id: &str, what: &str) {
        self.leave(e);
        let killed = self.model.kill_since(e.seq_mark);
        self.fix_vec();
        let _ = killed;
        self.after_op(api, None, true, false, what);
        if self.stop {
            return;
        }
        if restore {
            self.check_restored(api, e.snap, e.deallocs, id, what);
            if self.last.count < e.count || self.last.size < e.size {
                self.fail("C03/chunks-kept", format!("{what}: count()/size() went from {}/{} to {}/{} across a scope exit", e.count, e.size, self.last.count, self.last.size));
            }
        }
        self.flags.pending_scope_exit = true;
    }

    fn scope_was_interesting(&mut self, e: &ScopeEntry, unwound: bool, depth_inside: usize) {
        let switched = self.last.chunks.len() > e.chunks;
        if switched || unwound || depth_inside >= e.depth + 2 {
            self.flags.pending_interesting_scope = true;
        }
    }

    pub(crate) fn op_scoped(&mut self, api: &mut dyn ApiMut, r: &Rec, which: Kind) {
        if self.depth >= MAX_DEPTH {
            return self.nop();
        }
        let k = r.b(4) as usize % 9;
        let exit_panic = r.b(11) & 4 != 0;
        let replay = r.b(11) & 8 != 0 && which == Kind::Scoped && !self.plan_enabled && !self.no_replay;
        let n = 1usize << (r.b(10) % 5);
        let own = api.x_info().min_align;
        let what = match which {
            Kind::Scoped => format!("scoped {{ {k} records }} exit={}", if exit_panic { "unwind" } else { "return" }),
            Kind::ScopedAligned => format!("scoped_aligned::<{n}> {{ {k} records }} exit={}", if exit_panic { "unwind" } else { "return" }),
            Kind::Aligned => format!("aligned::<{n}> {{ {k} records }} exit={}", if exit_panic { "unwind" } else { "return" }),
            Kind::BorrowMut => format!("borrow_mut_with_settings::<{}> {{ {k} records }}", n.max(own)),
            _ => unreachable!(),
        };
        self.note(|| what.clone());
        if matches!(which, Kind::Aligned | Kind::ScopedAligned) {
            if n < own {
                self.flags.lowered = true;
                self.class("alignment_lowered");
            } else if n > own {
                self.flags.raised = true;
                self.class("alignment_raised");
            }
        }
        if which == Kind::BorrowMut && n > own {
            self.flags.raised = true;
        }
        let e = self.entry();
        let start = self.pos;
        let max_depth_before = self.flags.max_depth;
        self.flags.max_depth = self.depth;
        let w = what.clone();
        let unwound = self.call_scope(&what, &mut |me: &mut Self| {
            let mut f = |inner: &mut dyn ApiMut| {
                me.inner(inner, k, &w);
                if exit_panic {
                    resume_unwind(Box::new(bsv_core::runner::Marker));
                }
            };
            match which {
                Kind::Scoped => api.x_scoped(&mut f),
                Kind::ScopedAligned => api.x_scoped_aligned(n, &mut f),
                Kind::Aligned => api.x_aligned(n, &mut f),
                _ => api.x_borrow_mut_with_settings(n.max(own), &mut f),
            }
        });
        let depth_inside = self.flags.max_depth;
        self.flags.max_depth = max_depth_before.max(depth_inside);
        if unwound && n < own && matches!(which, Kind::Aligned | Kind::ScopedAligned) {
            self.flags.lowered_switch_or_unwind = true;
        }
        let is_scope = matches!(which, Kind::Scoped | Kind::ScopedAligned);
        if is_scope {
            self.exit_scope(api.x_as_api(), &e, true, "C03/scope-restore", &what);
            if which == Kind::ScopedAligned && self.fails.iter().any(|f| f.oracle == "C03/scope-restore") {
                // "after scoped_aligned returns it is exactly the entry position" is C18's clause, too
                let m = self.fails.iter().find(|f| f.oracle == "C03/scope-restore").map(|f| f.msg.clone()).unwrap_or_default();
                self.fail("C18/scoped-aligned-restore", m);
            }
            self.scope_was_interesting(&e, unwound, depth_inside);
        } else {
            // aligned / borrow_mut: allocations made inside stay live
            self.leave(&e);
            self.after_op(api.x_as_api(), None, true, false, &what);
        }
        if self.stop {
            return;
        }
        // C03 replay rule: the same workload in a new scope needs no memory and lands at the same addresses
        if replay && is_scope && !self.exhausted() && self.model.signature() == e.sig && self.vec == e.vec && self.cps.len() == e.cps_len {
            let end = self.pos;
            let mut calls_before = 0usize;
            let errs_before = self.errs;
            // first run's trace is not available (not traced); run twice more: trace A then trace B
            let mut traces: Vec<Vec<usize>> = Vec::new();
            for round in 0..2 {
                self.pos = start;
                let e2 = self.entry();
                let saved_seq = self.model.seq;
                self.trace = Some(Vec::new());
                if round == 0 {
                    self.size_log = Some(Vec::new());
                } else {
                    self.size_feed = Some((self.size_log.take().unwrap_or_default(), 0));
                }
                let w2 = format!("{what} [replay {round}]");
                self.note(|| w2.clone());
                let w3 = w2.clone();
                let _ = self.call_scope(&w2, &mut |me: &mut Self| {
                    let mut f = |inner: &mut dyn ApiMut| {
                        me.inner(inner, k, &w3);
                        if exit_panic {
                            resume_unwind(Box::new(bsv_core::runner::Marker));
                        }
                    };
                    if which == Kind::Scoped { api.x_scoped(&mut f) } else { api.x_scoped_aligned(n, &mut f) }
                });
                let t = self.trace.take().unwrap_or_default();
                self.size_feed = None;
                self.exit_scope(api.x_as_api(), &e2, true, "C03/scope-restore", &w2);
                let _ = saved_seq;
                if self.stop {
                    return;
                }
                traces.push(t);
                if round == 0 {
                    // chunks acquired so far remain available: the next round must not need more
                    calls_before = with_ctx(self.ctx, |c| c.grants.len());
                }
                if self.model.signature() != e.sig || self.vec != e.vec {
                    self.pos = end.max(self.pos);
                    return;
                }
            }
            self.pos = end.max(self.pos);
            let calls_after = with_ctx(self.ctx, |c| c.grants.len());
            if self.errs != errs_before {
                // a failed request legitimately leaves a later chunk current (skipping free space), so
                // workloads that contain failures are outside the rule
                self.class("replay_skipped_failed_request");
            } else if calls_after != calls_before && !self.exhausted() {
                self.fail("C03/replay-no-new-memory", format!("{what}: repeating the workload in a new scope obtained {} new chunk(s) from the base allocator", calls_after - calls_before));
            } else if traces[0] != traces[1] {
                self.fail("C03/replay-same-addresses", format!("{what}: repeating the workload returned different addresses: {:x?} vs {:x?}", traces[0], traces[1]));
            }
            self.flags.replayed_scopes += 1;
            self.class("scope_replayed");
        }
    }

    pub(crate) fn op_scope_guard(&mut self, api: &mut dyn ApiMut, r: &Rec) {
        if self.depth >= MAX_DEPTH {
            return self.nop();
        }
        let k1 = r.b(4) as usize % 6;
        let k2 = r.b(5) as usize % 6;
        let reset_mid = r.b(11) & 4 != 0;
        let second = r.b(11) & 8 != 0;
        let what = format!("scope_guard {{ scope {k1} records; reset={reset_mid}; second scope={second} {k2} records }}");
        self.note(|| what.clone());
        let e = self.entry();
        let w = what.clone();
        let depth0 = self.depth;
        let unwound = self.call_scope(&what, &mut |me: &mut Self| {
            api.x_scope_guard(&mut |g: &mut dyn GuardApi| {
                g.x_scope(&mut |s| me.inner(s, k1, &w));
                if reset_mid {
                    g.x_reset();
                    // everything made inside died; state must equal the entry state
                    me.model.kill_since(e.seq_mark);
                    me.fix_vec();
                    me.cps.truncate(e.cps_len);
                    g.x_scope(&mut |s| {
                        me.after_op(s.x_as_api(), None, true, false, "guard.reset()");
                        if !me.stop {
                            me.check_restored(s.x_as_api(), e.snap, e.deallocs, "C03/guard-reset-restore", "guard.reset()");
                        }
                    });
                }
                if second && !me.stop {
                    if !reset_mid {
                        // a second scope() without reset: allocations of the first are simply no longer referenced
                    }
                    g.x_scope(&mut |s| me.inner(s, k2, &w));
                }
            })
        });
        let _ = depth0;
        self.exit_scope(api.x_as_api(), &e, true, "C03/guard-drop-restore", &what);
        let d = self.flags.max_depth;
        self.scope_was_interesting(&e, unwound, d);
    }

    pub(crate) fn op_by_value(&mut self, api: &mut dyn ApiMut, r: &Rec) {
        if self.depth >= MAX_DEPTH {
            return self.nop();
        }
        let k = r.b(4) as usize % 7;
        let info = api.x_info();
        let raise = if r.b(11) & 4 != 0 { Some((1usize << (r.b(10) % 5)).max(info.min_align)) } else { None };
        let try_ = self.try_flag(r, 4096);
        let what = format!("by_value(try={try_}) with_settings raise={raise:?} {{ {k} records }}");
        self.note(|| what.clone());
        self.used = true;
        if let Some(n) = raise {
            if n > info.min_align {
                self.flags.raised = true;
            }
        }
        let e = self.entry();
        let pre = self.pre(api.x_as_api(), false);
        let w = what.clone();
        let mut res: Result<(), ()> = Ok(());
        let mut faults_at_entry: Option<u64> = None;
        self.call_scope(&what, &mut |me: &mut Self| {
            res = api.x_by_value(try_, raise, &mut |inner| {
                faults_at_entry = Some(with_ctx(me.ctx, |c| c.faults_fired));
                me.inner(inner, k, &w)
            });
        });
        match (res, faults_at_entry) {
            (Ok(()), Some(f)) if f > pre.faults => self.fail("C07/ok-despite-failure", format!("{what}: a base-allocator call failed while creating the first chunk but by_value succeeded")),
            (Err(()), _) if self.faults_since(&pre) == 0 && !self.exhausted() => self.class("unexplained_err"),
            _ => {}
        }
        // allocations made through the by-value scope are bound to the `&mut` borrow: dead now
        self.leave(&e);
        self.model.kill_since(e.seq_mark);
        self.fix_vec();
        self.after_op(api.x_as_api(), Some(&pre), true, false, &what);
    }

    pub(crate) fn op_alloc_try_with_mut(&mut self, api: &mut dyn ApiMut, r: &Rec) {
        let ok = r.b(4) & 1 == 0;
        let try_ = self.try_flag(r, 256);
        let what = format!("alloc_try_with_mut(closure returns {}) try={try_}", if ok { "Ok" } else { "Err" });
        self.note(|| what.clone());
        self.used = true;
        let e = self.entry();
        let pre = self.pre(api.x_as_api(), false);
        let variant = r.b(12) & 1 == 1;
        let out = guard(|| api.x_alloc_try_with_mut(ok, try_, variant));
        self.judge_fault(&pre, &out, &what);
        let mut check = false;
        if let Outcome::Ok(res) = out {
            match res {
                Some(o) => {
                    if !o.value_ok {
                        self.fail("C17/value-result", format!("{what}: wrong value"));
                    }
                    if self.check_placement(api.x_as_api(), &what, o.ptr, o.size, o.align) {
                        let seed = self.seed_for(r);
                        self.register(o.ptr, o.size, o.size, o.align, Origin::Boxed, seed);
                    }
                }
                None => check = true,
            }
        }
        self.after_op(api.x_as_api(), Some(&pre), true, false, &what);
        if check && !self.stop {
            self.check_restored(api.x_as_api(), e.snap, e.deallocs, "C03/try-with-restore", &what);
        }
    }

    pub(crate) fn op_mut_boxed(&mut self, api: &mut dyn ApiMut, r: &Rec) {
        let n = r.u16(6) % 300;
        let req = match r.b(5) % 4 {
            0 => MutBoxReq::IterMut(n, r.b(12)),
            1 => MutBoxReq::IterMutRev(n, r.b(12)),
            2 => MutBoxReq::FmtMut(n.min(200)),
            _ => MutBoxReq::CStrFmtMut(n.min(200)),
        };
        let try_ = self.try_flag(r, 16 * n + 1024);
        let what = format!("helper {req:?} try={try_}");
        self.note(|| what.clone());
        self.used = true;
        let pre = self.pre(api.x_as_api(), false);
        let seed = self.seed_for(r);
        let out = guard(|| api.x_mut_boxed(req, seed, try_));
        self.judge_fault(&pre, &out, &what);
        if let Outcome::Ok(o) = out {
            if !o.value_ok {
                self.fail("C17/value-result", format!("{what}: the returned value does not hold the requested contents"));
            }
            if self.check_placement(api.x_as_api(), &what, o.ptr, o.size, o.align) && o.size > 0 {
                self.register(o.ptr, o.size, o.size, o.align, Origin::Boxed, seed);
            }
        }
        self.after_op(api.x_as_api(), Some(&pre), true, false, &what);
    }

    pub(crate) fn op_alloc_try_with(&mut self, api: &dyn Api, r: &Rec) {
        let ok = r.b(4) & 1 == 0;
        let k = (r.b(4) as usize >> 1) % 3;
        let try_ = self.try_flag(r, 256);
        let what = format!("alloc_try_with(closure makes {k} op(s), returns {}) try={try_}", if ok { "Ok" } else { "Err" });
        self.note(|| what.clone());
        self.used = true;
        let e = self.entry();
        let pre = self.pre(api, false);
        let mut executed = 0usize;
        let mut faults_at_entry: Option<u64> = None;
        let limit = (self.pos + k).min(self.recs.len());
        let floor = self.cps.len();
        let mut me = AssertUnwindSafe(&mut *self);
        let out = guard(|| {
            api.x_alloc_try_with(ok, try_, &mut |a: &dyn Api| {
                me.depth += 1;
                let before = me.ops;
                faults_at_entry = Some(with_ctx(me.ctx, |c| c.faults_fired));
                // the slot for the result has been allocated already: resynchronise
                me.after_op(a, None, true, false, "alloc_try_with closure entry");
                while me.pos < limit && !me.stop {
                    let rec = Rec(me.recs[me.pos]);
                    me.pos += 1;
                    let kind = me.decode_kind(&rec);
                    let kind = match kind {
                        Kind::Allocate | Kind::Grow | Kind::Shrink | Kind::Dealloc | Kind::Typed | Kind::Boxed | Kind::Reserve | Kind::VecOp => kind,
                        _ => Kind::Allocate,
                    };
                    me.ops += 1;
                    me.exec_shared(a, &rec, kind, floor);
                }
                executed = (me.ops - before) as usize;
                me.depth -= 1;
            })
        });
        self.depth = e.depth;
        match (&out, faults_at_entry) {
            (Outcome::Ok(_), Some(f)) if f > pre.faults => self.fail("C07/ok-despite-failure", format!("{what}: a base-allocator call failed while allocating the slot but the call succeeded")),
            (Outcome::Panic(m), _) => self.fail("panic/op", format!("{what}: unexpected panic: {m}")),
            _ => {}
        }
        let mut check = false;
        if let Outcome::Ok(res) = out {
            match res {
                Some(o) => {
                    if !o.value_ok {
                        self.fail("C17/value-result", format!("{what}: wrong value"));
                    }
                    if self.check_placement(api, &what, o.ptr, o.size, o.align) {
                        let seed = self.seed_for(r);
                        self.register(o.ptr, o.size, o.size, o.align, Origin::Boxed, seed);
                    }
                }
                None => check = executed == 0,
            }
        }
        self.after_op(api, Some(&pre), true, false, &what);
        if check && !self.stop {
            self.check_restored(api, e.snap, e.deallocs, "C03/try-with-restore", &what);
        }
    }

    // ---------------------------------------------------------------------------------------
    // claims

    pub(crate) fn op_claim(&mut self, api: &dyn Api, r: &Rec) {
        if self.depth >= MAX_DEPTH {
            return self.nop();
        }
        let k = r.b(4) as usize % 10;
        let exit_panic = r.b(11) & 4 != 0;
        let second_claim = r.b(11) & 8 != 0;
        let what = format!("claim {{ {k} records }} exit={} second_claim={second_claim}", if exit_panic { "unwind" } else { "drop" });
        self.note(|| what.clone());
        let e = self.entry();
        let w = what.clone();
        let mut guard_last: Option<StatsSnap> = None;
        let unwound = self.call_scope(&what, &mut |me: &mut Self| {
            api.x_claim(&mut |g: &mut dyn ApiMut, orig: &dyn Api| {
                me.depth += 1;
                me.nested_levels += 1;
                me.in_claim += 1;
                me.align_stack.push(g.x_info().min_align);
                // the original is inert now
                me.check_claimed_original(orig, g.x_as_api(), &w, second_claim);
                let limit = (me.pos + k).min(me.recs.len());
                let floor = me.cps.len();
                while me.pos < limit && !me.stop {
                    let rec = Rec(me.recs[me.pos]);
                    if rec.b(15) & 1 == 1 {
                        me.pos += 1;
                        me.ops += 1;
                        me.flags.claim_ops_orig += 1;
                        me.exec_claimed(orig, g.x_as_api(), &rec);
                    } else {
                        let before = me.pos;
                        let _ = me.run(g, before + 1, floor);
                        me.flags.claim_ops_guard += 1;
                        if me.pos == before {
                            me.pos += 1;
                        }
                    }
                }
                me.after_op(g.x_as_api(), None, true, false, "end of claim");
                guard_last = Some(me.last.clone());
                me.align_stack.pop();
                me.in_claim -= 1;
                me.depth -= 1;
                me.nested_levels -= 1;
                if exit_panic {
                    resume_unwind(Box::new(bsv_core::runner::Marker));
                }
            })
        });
        let _ = unwound;
        // blocks allocated through the guard (outside inner scopes) stay live
        self.leave(&e);
        self.after_op(api, None, true, false, &what);
        if self.stop {
            return;
        }
        if api.x_is_claimed(Route::Own) {
            self.fail("C14/unclaimed-after-guard", format!("{what}: is_claimed() still true after the guard is gone"));
        }
        if let Some(g) = guard_last {
            if g != self.last {
                self.fail("C14/resume", format!("{what}: the original does not continue where the guard stopped:\n guard    {g:?}\n original {:?}", self.last));
            }
        }
        self.flags.pending_claim_end = true;
        self.class("claim_done");
    }

    fn check_claimed_original(&mut self, orig: &dyn Api, guard: &dyn Api, what: &str, second_claim: bool) {
        for route in [Route::Own, Route::Ref, Route::DynCore, Route::WoDealloc] {
            if !orig.x_is_claimed(route) {
                self.fail("C14/is-claimed", format!("{what}: is_claimed() via {route:?} is false while the guard is alive"));
            }
            let a = orig.x_any_stats(route);
            if a != StatsSnap::default() {
                self.fail("C14/stats-zero", format!("{what}: any_stats() via {route:?} of the claimed original is not empty: {a:?}"));
            }
        }
        let s = orig.x_stats();
        if s != StatsSnap::default() {
            self.fail("C14/stats-zero", format!("{what}: stats() of the claimed original is not empty: {s:?}"));
        }
        if second_claim {
            let r = catch_unwind(AssertUnwindSafe(|| orig.x_claim(&mut |_g, _o| {})));
            if r.is_ok() {
                self.fail("C14/second-claim", format!("{what}: a second claim() on the claimed original did not panic"));
            }
            // the failed claim must not have disturbed anything
            if !orig.x_is_claimed(Route::Own) {
                self.fail("C14/second-claim", format!("{what}: the original is no longer claimed after the rejected second claim"));
            }
        }
        let _ = guard;
    }

    /// one operation on the original handle while it is claimed
    fn exec_claimed(&mut self, orig: &dyn Api, guard_api: &dyn Api, r: &Rec) {
        let info = orig.x_info();
        let before = guard_api.x_stats();
        let route = Route::ALL[r.b(1) as usize % 9];
        let mut sel = r.b(0) % 14;
        if !info.full && matches!(sel, 3 | 4 | 5 | 9 | 12 | 13) {
            sel = sel % 2; // lite cell: only the non-generic entry points are instantiated
        }
        let align = self.align_from(r);
        let size = 1 + self.size_from(r, align, &info);
        let l = std::alloc::Layout::from_size_align(size, align).unwrap();
        let mut what = String::new();
        match sel {
            0 | 1 => {
                let zeroed = sel == 1;
                what = format!("[claimed original] allocate{}({size}@{align}) via {route:?}", if zeroed { "_zeroed" } else { "" });
                match guard(|| orig.x_allocate(route, l, zeroed)) {
                    Outcome::Err => {}
                    Outcome::Ok(_) => self.fail("C14/request-fails", format!("{what}: succeeded")),
                    Outcome::Panic(m) => self.fail("C14/request-fails", format!("{what}: panicked: {m}")),
                }
            }
            2 => {
                // grow of a pre-claim block
                if let Some(b) = self.model.blocks.values().next().cloned() {
                    what = format!("[claimed original] grow(#{} {:#x} {} -> {}) via {route:?}", b.id, b.addr, b.size, b.size + size);
                    let old = std::alloc::Layout::from_size_align(b.size, b.align).unwrap();
                    let new = std::alloc::Layout::from_size_align(b.size + size, b.align).unwrap();
                    match guard(|| unsafe { orig.x_grow(route, b.addr, old, new, false) }) {
                        Outcome::Err => {}
                        Outcome::Ok(_) => self.fail("C14/request-fails", format!("{what}: succeeded")),
                        Outcome::Panic(m) => self.fail("C14/request-fails", format!("{what}: panicked: {m}")),
                    }
                }
            }
            3 | 4 => {
                let e = Elem::ALL[r.b(10) as usize % 5];
                let n = 1 + size / e.layout().size().max(1) % 100;
                let try_ = sel == 3 || (route.is_dyn() && !DYN_CLAIMED_UNWINDS);
                let req = match r.b(5) % 4 {
                    0 => TypedReq::Layout(l),
                    1 => TypedReq::Sized(e),
                    2 => TypedReq::Slice(e, n),
                    _ => TypedReq::SliceFor(e, n),
                };
                what = format!("[claimed original] typed {req:?} try={try_} via {route:?}");
                self.note(|| format!("(about to) {what}"));
                match (try_, guard(|| orig.x_typed_alloc(route, req, try_))) {
                    (true, Outcome::Err) | (false, Outcome::Panic(_)) => {}
                    (true, Outcome::Panic(m)) => self.fail("C14/request-fails", format!("{what}: a try_ method panicked: {m}")),
                    (false, Outcome::Err) => {}
                    (_, Outcome::Ok(_)) => self.fail("C14/request-fails", format!("{what}: succeeded")),
                }
            }
            5 => {
                // values of zero-sized types never touch the allocator
                what = format!("[claimed original] alloc(()) via {route:?}");
                match guard(|| orig.x_boxed(route, BoxReq::Alloc(Elem::Unit), 1, r.b(4) & 2 == 0)) {
                    Outcome::Ok(_) => {}
                    Outcome::Err => self.fail("C14/zst-exempt", format!("{what}: alloc(()) failed")),
                    Outcome::Panic(m) => self.fail("C14/zst-exempt", format!("{what}: alloc(()) panicked: {m}")),
                }
            }
            12 | 13 => {
                // the scope-level helpers (through the route's scope object: trait objects for the dyn routes)
                let try_ = sel == 12;
                let n = 1 + size % 40;
                let req = match r.b(5) % 5 {
                    0 => BoxReq::SliceCopy(Elem::U8, n),
                    1 => BoxReq::Str(n),
                    2 => BoxReq::Alloc(Elem::U32),
                    3 => BoxReq::SliceFill(Elem::U32, n),
                    _ => BoxReq::Fmt(n),
                };
                what = format!("[claimed original] helper {req:?} try={try_} via {route:?}");
                self.note(|| format!("(about to) {what}"));
                match (try_, guard(|| orig.x_boxed(route, req, 1, try_))) {
                    (true, Outcome::Err) | (false, Outcome::Panic(_)) => {}
                    (true, Outcome::Panic(m)) => self.fail("C14/request-fails", format!("{what}: a try_ method panicked: {m}")),
                    (false, Outcome::Err) => {}
                    (_, Outcome::Ok(_)) => self.fail("C14/request-fails", format!("{what}: succeeded")),
                }
            }
            6 => {
                let try_ = r.b(4) & 1 == 0 || (route.is_dyn() && !DYN_CLAIMED_UNWINDS);
                // "every request ... reserve" includes the degenerate reserve(0)
                let size = if r.b(5) % 4 == 0 { 0 } else { size };
                what = format!("[claimed original] reserve({size}) try={try_} via {route:?}");
                match (try_, guard(|| orig.x_reserve(route, size, try_))) {
                    (true, Outcome::Err) | (false, Outcome::Panic(_)) | (false, Outcome::Err) => {}
                    (true, Outcome::Panic(m)) => self.fail("C14/request-fails", format!("{what}: a try_ method panicked: {m}")),
                    (_, Outcome::Ok(_)) => self.fail("C14/request-fails", format!("{what}: succeeded")),
                }
            }
            7 => {
                let a = align.min(64);
                let lp = std::alloc::Layout::from_size_align(size / a * a + a, a).unwrap();
                what = format!("[claimed original] prepare_allocation({lp:?}) via {route:?}");
                match guard(|| orig.x_prepare(route, lp, r.b(4) & 1 == 0)) {
                    Outcome::Err => {}
                    Outcome::Ok(_) => self.fail("C14/request-fails", format!("{what}: succeeded")),
                    Outcome::Panic(m) => self.fail("C14/request-fails", format!("{what}: panicked: {m}")),
                }
            }
            8 => {
                // deallocate / shrink (fitting alignment) do nothing
                if let Some(b) = self.pick_any_block(r.u16(2)) {
                    if r.b(4) & 1 == 0 {
                        what = format!("[claimed original] deallocate(#{} {:#x} {}) via {route:?}", b.id, b.addr, b.size);
                        let lo = std::alloc::Layout::from_size_align(b.size, b.align).unwrap();
                        if let Outcome::Panic(m) = guard(|| {
                            unsafe { orig.x_deallocate(route, b.addr, lo) };
                            Ok(())
                        }) {
                            self.fail("C14/dealloc-noop", format!("{what}: panicked: {m}"));
                        }
                        self.model.remove_id(b.id);
                        self.fix_vec();
                    } else {
                        let ns = pick(r.u16(6), b.size + 1);
                        what = format!("[claimed original] shrink(#{} {:#x} {} -> {ns}) via {route:?}", b.id, b.addr, b.size);
                        let lo = std::alloc::Layout::from_size_align(b.size, b.align).unwrap();
                        let ln = std::alloc::Layout::from_size_align(ns, b.align).unwrap();
                        match guard(|| unsafe { orig.x_shrink(route, b.addr, lo, ln) }) {
                            Outcome::Ok((p, _)) => {
                                if p != b.addr {
                                    self.fail("C14/shrink-noop", format!("{what}: moved the block to {p:#x}"));
                                }
                                // contract: the block now has the new size
                                if let Some(mut nb) = self.model.remove_id(b.id) {
                                    nb.size = ns;
                                    nb.init = nb.init.min(ns);
                                    self.model.insert(nb);
                                }
                            }
                            Outcome::Err => self.fail("C14/shrink-noop", format!("{what}: shrink with fitting alignment returned an error")),
                            Outcome::Panic(m) => self.fail("C14/shrink-noop", format!("{what}: panicked: {m}")),
                        }
                    }
                }
            }
            9 => {
                // a collection created before the claim through the original keeps its contents
                if let Some((p, len, cap, seed)) = self.vec {
                    if cap > 0 {
                        let push_fits = len < cap;
                        what = format!("[claimed original] try_push on BumpVec (len {len} cap {cap}) via {route:?}");
                        match guard(|| Ok(unsafe { orig.x_vec_op(route, (p, len, cap), 0, 0, seed) })) {
                            Outcome::Ok(((np, nlen, ncap), ok)) => {
                                if push_fits {
                                    if !ok || np != p || ncap != cap || nlen != len + 1 {
                                        self.fail("C14/collection-keeps", format!("{what}: push within capacity failed or moved the buffer"));
                                    } else {
                                        // re-pattern the initialised part
                                        if let Some(mut b) = self.model.remove_addr(p) {
                                            b.init = nlen * 8;
                                            write_pattern(p, b.init, b.seed);
                                            self.model.insert(b);
                                        }
                                        self.vec = Some((p, nlen, cap, seed));
                                    }
                                } else if ok {
                                    self.fail("C14/request-fails", format!("{what}: growing a collection through the claimed original succeeded"));
                                } else if (np, nlen, ncap) != (p, len, cap) {
                                    self.fail("C14/collection-keeps", format!("{what}: failed push changed the vector"));
                                }
                            }
                            Outcome::Panic(m) => self.fail("C14/request-fails", format!("{what}: panicked: {m}")),
                            Outcome::Err => {}
                        }
                    }
                }
            }
            _ => {
                what = "[claimed original] stats probe".to_string();
                self.check_claimed_original(orig, guard_api, &what, false);
            }
        }
        if what.is_empty() {
            return self.nop();
        }
        self.note(|| what.clone());
        // inert: the guard's view of the arena is untouched
        let after = guard_api.x_stats();
        if after != before {
            self.fail("C14/inert", format!("{what}: an operation on the claimed original changed the arena:\n before {before:?}\n after  {after:?}"));
        }
        if let Some(m) = self.model.verify() {
            self.fail("C02/pattern", format!("after {what}: {m}"));
        }
    }

    fn pick_any_block(&self, raw: usize) -> Option<Block> {
        let n = self.model.count();
        if n == 0 {
            return None;
        }
        let b = self.model.nth(pick(raw, n))?.clone();
        if let Some((p, _, cap, _)) = self.vec {
            if cap > 0 && p == b.addr {
                return None;
            }
        }
        Some(b)
    }

    // ---------------------------------------------------------------------------------------
    // dispatch

    pub(crate) fn decode_kind(&self, r: &Rec) -> Kind {
        if self.probe_only { Self::probe_kind(r.b(0) as usize) } else { self.kind_of(r.b(0) as usize) }
    }

    /// operations on a shared handle; returns false if `kind` needs `&mut`
    pub(crate) fn exec_shared(&mut self, api: &dyn Api, r: &Rec, kind: Kind, floor: usize) -> bool {
        let kind = if !api.x_info().full && matches!(kind, Kind::Typed | Kind::ShrinkSlice | Kind::PrepareSlice | Kind::DeallocBox | Kind::Boxed | Kind::VecOp) {
            self.class("lite_cell_skip");
            Kind::Nop
        } else {
            kind
        };
        if self.flags.pending_split && !matches!(kind, Kind::Split | Kind::Nop) {
            self.flags.split_then_op = true;
        }
        self.mixh(kind as u64 ^ ((r.b(4) as u64) << 8) ^ ((r.b(10) as u64) << 16) ^ ((r.b(1) as u64) << 24));
        if !matches!(kind, Kind::StatsProbe | Kind::Checkpoint | Kind::Claim | Kind::Boxed | Kind::Nop | Kind::Scoped | Kind::ScopeGuard) {
            self.used = true;
        }
        match kind {
            Kind::Allocate => self.op_allocate(api, r),
            Kind::Grow => self.op_grow(api, r),
            Kind::Shrink => self.op_shrink(api, r),
            Kind::Dealloc => self.op_dealloc(api, r),
            Kind::DeallocRealloc => self.op_dealloc_realloc(api, r),
            Kind::Split => self.op_split(api, r),
            Kind::Typed => self.op_typed(api, r),
            Kind::ShrinkSlice => self.op_shrink_slice(api, r),
            Kind::PrepareCommit => self.op_prepare_commit(api, r),
            Kind::PrepareSlice => self.op_prepare_slice(api, r),
            Kind::Reserve => self.op_reserve(api, r),
            Kind::Checkpoint => self.op_checkpoint(api, r),
            Kind::ResetTo => self.op_reset_to(api, r, floor),
            Kind::Claim => self.op_claim(api, r),
            Kind::AllocTryWith => self.op_alloc_try_with(api, r),
            Kind::Boxed => self.op_boxed(api, r),
            Kind::DeallocBox => self.op_dealloc_box(api, r),
            Kind::VecOp => self.op_vec(api, r),
            Kind::Foreign => self.op_foreign(api, r),
            Kind::StatsProbe => self.op_stats_probe(api, r),
            Kind::Nop => self.nop(),
            _ => return false,
        }
        true
    }

    /// Runs records until `limit`; returns a top-level-only operation to the caller (depth 0).
    pub fn run(&mut self, api: &mut dyn ApiMut, limit: usize, floor: usize) -> Option<TopOp> {
        while self.pos < limit && self.pos < self.recs.len() && !self.stop {
            let idx = self.pos;
            let rec = Rec(self.recs[idx]);
            self.pos += 1;
            let kind = self.decode_kind(&rec);
            self.ops += 1;
            if matches!(kind, Kind::Reset | Kind::ResetToStart | Kind::RawRoundTrip | Kind::WithSettings) {
                if self.depth == 0 {
                    return Some(TopOp { kind, rec: idx });
                }
                self.nop();
                continue;
            }
            if self.exec_shared(api.x_as_api(), &rec, kind, floor) {
                continue;
            }
            match kind {
                Kind::Scoped | Kind::ScopedAligned | Kind::Aligned | Kind::BorrowMut => self.op_scoped(api, &rec, kind),
                Kind::ScopeGuard => self.op_scope_guard(api, &rec),
                Kind::ByValue => self.op_by_value(api, &rec),
                Kind::AllocTryWithMut => self.op_alloc_try_with_mut(api, &rec),
                Kind::MutBoxed if api.x_info().full => self.op_mut_boxed(api, &rec),
                _ => self.nop(),
            }
        }
        None
    }
}
