//! bsv-arena: engine A (see /verif/DESIGN.md).
pub mod api;
pub mod arena;
pub mod arena_cells;
pub mod arena_ops;
pub mod arena_scopes;
