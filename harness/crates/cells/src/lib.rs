//! bsv-cells: the (allocator shape, settings) cells as trait-object arenas for engines B and C.
//! The collection code is instantiated once per element type, independent of the settings cell;
//! only these tiny constructors are monomorphised per cell.

use bump_scope::settings::{Bool, BumpSettings};
use bump_scope::{BaseAllocator, Bump};

use bsv_core::common::Info;
use bsv_core::talloc::{self, Handle, O32, O64, P, P24, Z};

type S<const MA: usize, const UP: bool, const GA: bool, const DE: bool, const SH: bool, const MCS: usize> = BumpSettings<MA, UP, GA, true, DE, SH, MCS>;

pub type DynFn<'f> = &'f mut dyn for<'x, 'y> FnMut(&'x mut (dyn bump_scope::traits::MutBumpAllocatorCoreScope<'y> + 'y), Info);
pub type DynCellFn = for<'f> fn(usize, u8, DynFn<'f>) -> bool;

fn dyn_start<A, const UP: bool, const GA: bool, const DE: bool, const SH: bool, const MCS: usize>(ma: usize, ctor: u8, f: DynFn<'_>) -> bool
where
    A: Handle + BaseAllocator<Bool<GA>>,
{
    macro_rules! go {
        ($MA:literal) => {{
            let r: Result<Bump<A, S<$MA, UP, GA, DE, SH, MCS>>, _> = match ctor % 3 {
                0 => Bump::try_new_in(A::new()),
                1 => Bump::try_with_size_in(2048, A::new()),
                _ => {
                    if GA { Bump::try_new_in(A::new()) } else { Ok(Bump::default()) }
                }
            };
            match r {
                Ok(mut b) => {
                    let h = talloc::header_layout::<A>();
                    let info = Info { up: UP, min_align: $MA, ga: GA, de: DE, sh: SH, mcs: MCS, shape: A::NAME, header_size: h.size(), header_align: h.align(), full: false };
                    let sc = b.as_mut_scope();
                    f(sc, info);
                    true
                }
                Err(_) => false,
            }
        }};
    }
    match ma {
        1 => go!(1),
        2 => go!(2),
        4 => go!(4),
        8 => go!(8),
        _ => go!(16),
    }
}

pub struct Cell {
    pub name: &'static str,
    pub ga: bool,
    pub d: DynCellFn,
}

macro_rules! cell {
    ($A:ident, $UP:literal, $GA:literal, $DE:literal, $SH:literal, $MCS:literal) => {
        Cell {
            name: concat!(stringify!($A), " up=", stringify!($UP), " ga=", stringify!($GA), " de=", stringify!($DE), " sh=", stringify!($SH), " mcs=", stringify!($MCS)),
            ga: $GA,
            d: dyn_start::<$A<0>, $UP, $GA, $DE, $SH, $MCS>,
        }
    };
}

/// the covering design of DESIGN.md section 3 (28 families x 5 minimum alignments)
pub fn cells() -> Vec<Cell> {
    vec![
        cell!(Z, true, true, true, true, 512),
        cell!(Z, false, true, true, true, 512),
        cell!(Z, true, true, true, false, 512),
        cell!(Z, false, true, true, false, 512),
        cell!(Z, true, true, false, true, 512),
        cell!(Z, false, true, false, true, 512),
        cell!(Z, true, true, false, false, 512),
        cell!(Z, false, true, false, false, 512),
        cell!(Z, true, false, true, true, 512),
        cell!(Z, false, false, true, true, 512),
        cell!(Z, true, false, false, false, 512),
        cell!(Z, false, false, false, false, 512),
        cell!(Z, true, true, true, true, 0),
        cell!(Z, false, true, true, true, 0),
        cell!(Z, true, true, true, true, 4096),
        cell!(Z, false, true, true, true, 4096),
        cell!(P, true, true, true, true, 512),
        cell!(P, false, true, true, true, 512),
        cell!(P, true, false, true, true, 512),
        cell!(P, false, false, true, true, 512),
        cell!(O64, true, true, true, true, 512),
        cell!(O64, false, true, true, true, 512),
        cell!(O64, true, false, true, true, 512),
        cell!(O64, false, false, true, true, 512),
        cell!(P24, true, true, true, true, 512),
        cell!(P24, false, true, true, true, 512),
        cell!(O32, true, true, true, true, 512),
        cell!(O32, false, true, true, true, 512),
    ]
}
