//! Engine B (DESIGN.md C06 C08 C15 C16, C07 b): operation sequences on the five vector kinds,
//! differential against std `Vec` (mirrored model for the reverse vector), per-value drop
//! accounting with panic injection, position snapshots for the exclusive-borrow collections.

use std::collections::BTreeSet;
use std::ops::Bound;
use std::panic::{AssertUnwindSafe, catch_unwind};

use bump_scope::traits::{BumpAllocatorCore, BumpAllocatorTypedScope, MutBumpAllocatorCoreScope};
use bump_scope::{BumpBox, BumpVec, FixedBumpVec, MutBumpVec, MutBumpVecRev};

use bsv_core::common::{Info, StatsSnap, snap_any};
use bsv_core::common::{Rec, pick};
use bsv_cells::cells;
use crate::coll_api::*;
use bsv_core::elem::{Elem, Tr, Tr32, TrZ, reg_reset, tick, with_reg};
use bsv_core::runner::{CaseReport, CaseResult, Engine, Failure, Marker, panic_message};
use bsv_core::talloc::{self, FaultPlan, GrantPolicy, with_ctx};

#[derive(Clone, Copy, Debug, PartialEq, Eq)]
pub enum CMix {
    C06,
    C08,
    C15,
    C16,
    C07,
}

pub struct CollEngine {
    pub mix: CMix,
}

struct Live<'b, T: Elem> {
    v: Box<dyn VK<'b, T> + 'b>,
    m: Vec<u32>,
    /// element size for buffer extent
    promised: usize,
}

struct St<'c> {
    mix: CMix,
    recs: Vec<&'c [u8]>,
    pos: usize,
    fails: Vec<Failure>,
    classes: BTreeSet<&'static str>,
    log: Option<String>,
    hash: u64,
    ops: u64,
    nops: u64,
    stop: bool,
    leak_ok: BTreeSet<u32>,
    zst_leaked: i64,
    injected_seen: bool,
    mutating: u32,
    kinds_used: BTreeSet<u8>,
    realloc_or_range: bool,
    partial_drop: bool,
    split_then_grow: bool,
    outgrew: bool,
    fault_seen: bool,
    ops_after_fault: u32,
}

impl St<'_> {
    fn fail(&mut self, oracle: &str, msg: String) {
        if let Some(l) = self.log.as_mut() {
            l.push_str(&format!("  !! {oracle}: {msg}\n"));
        }
        if !self.fails.iter().any(|f| f.oracle == oracle) {
            self.fails.push(Failure { oracle: oracle.to_string(), msg });
        }
        if bsv_core::runner::stops_case(coll_owns(bsv_core::runner::current_prop(), oracle)) {
            self.stop = true;
        }
    }
    fn note(&mut self, s: impl FnOnce() -> String) {
        if self.log.is_some() && std::env::var_os("VERIF_TRACE").is_some() {
            eprintln!("{}", s());
            return;
        }
        if let Some(l) = self.log.as_mut() {
            l.push_str(&s());
            l.push('\n');
        }
    }
    fn class(&mut self, c: &'static str) {
        self.classes.insert(c);
    }
    fn mixh(&mut self, v: u64) {
        self.hash ^= v;
        self.hash = self.hash.wrapping_mul(0x100000001b3);
    }
}

fn bound(sel: u8, raw: usize, len: usize) -> Bound<usize> {
    let i = pick(raw, len + 3); // 0..=len+2: includes out of range
    // (rarely the largest index: `..=usize::MAX` / `(Excluded(usize::MAX), ..)` overflow when resolved)
    let i = if sel >= 250 { usize::MAX } else { i };
    match sel % 4 {
        0 => Bound::Unbounded,
        1 | 2 => Bound::Included(i),
        _ => Bound::Excluded(i),
    }
}

/// resolve a range like std does; None = std panics
fn resolve(r: &R2, len: usize) -> Option<(usize, usize)> {
    let s = match r.0 {
        Bound::Unbounded => 0,
        Bound::Included(i) => i,
        Bound::Excluded(i) => i.checked_add(1)?,
    };
    let e = match r.1 {
        Bound::Unbounded => len,
        Bound::Included(i) => i.checked_add(1)?,
        Bound::Excluded(i) => i,
    };
    if s > e || e > len { None } else { Some((s, e)) }
}

fn vals(r: &Rec, n: usize) -> Vec<u32> {
    (0..n).map(|i| (r.b(8 + i % 8) as u32 >> (i / 8 % 5)) % 7).collect()
}

fn decode_op(r: &Rec, len: usize, kind: KindId, mix: CMix, faulty: bool, zst: bool) -> Op {
    let op = decode_op_inner(r, len, kind, mix, faulty);
    // `extend` / `splice` have no try_ form: a refused allocation would abort the process
    let op = match op {
        Op::ExtendIter(v, _) if faulty => Op::ExtendClone(v, true),
        Op::Splice(..) if faulty => Op::Pop,
        // (reserving for zero-sized elements cannot overflow a byte size: no unrepresentable-hint form there)
        // (nor together with an injected panic: the capacity-overflow panic is raised inside Splice::drop, and a
        //  second panic while unwinding aborts the process by the rules of the language)
        Op::Splice(r, v, c) if c / 5 >= 4 && (zst || with_reg(|g| g.panic_at.is_some())) => Op::Splice(r, v, c % 20),
        // (with an empty tail the replacement goes through `extend`, where a lying size_hint legitimately makes
        //  std and the library stop at different points; with a tail both run the same gap-filling algorithm)
        Op::Splice(r, v, c) if c / 5 >= 4 && !resolve(&r, len).map(|(_, e)| e < len).unwrap_or(false) => Op::Splice(r, v, c % 20),
        o => o,
    };
    if !zst {
        return op;
    }
    // zero-sized elements carry no value: all values are 0
    match op {
        Op::Push(_, t, x) => Op::Push(0, t, x),
        Op::Insert(i, _, t) => Op::Insert(i, 0, t),
        Op::Resize(n, _, t) => Op::Resize(n, 0, t),
        Op::ExtendClone(v, t) => Op::ExtendClone(vec![0; v.len()], t),
        Op::ExtendIter(v, h) => Op::ExtendIter(vec![0; v.len()], h),
        Op::Append(v, s, t) => Op::Append(vec![0; v.len()], s, t),
        Op::Splice(r, v, c) => Op::Splice(r, vec![0; v.len()], c),
        o => o,
    }
}

fn decode_op_inner(r: &Rec, len: usize, kind: KindId, mix: CMix, faulty: bool) -> Op {
    let k = r.b(0) as usize;
    let try_ = faulty || r.b(1) & 1 == 1;
    let idx = |raw: usize| pick(raw, len + 2); // 0..=len+1
    let v = r.b(4) as u32 % 7;
    let n_small = if mix == CMix::C07 { r.b(5) as usize % 80 } else { r.b(5) as usize % 12 };
    let range = (bound(r.b(6), r.u16(2), len), bound(r.b(7), r.u16(4), len));
    // mostly-valid ranges: half of the time force start <= end within len
    let range = if r.b(1) & 2 == 0 {
        let a = pick(r.u16(2), len + 1);
        let b = pick(r.u16(4), len + 1);
        (Bound::Included(a.min(b)), Bound::Excluded(a.max(b)))
    } else {
        range
    };
    let split_heavy = mix == CMix::C16;
    let sel = k % if split_heavy { 40 } else { 34 };
    match sel {
        0..=5 => Op::Push(v, try_, r.b(5)),
        6 | 7 => Op::Insert(idx(r.u16(2)), v, try_),
        8 | 9 => Op::Remove(idx(r.u16(2))),
        10 => Op::SwapRemove(idx(r.u16(2))),
        11 => Op::Pop,
        12 => Op::PopIf(1 + v % 3),
        13 => Op::Truncate(idx(r.u16(2))),
        14 => {
            if r.b(5) % 4 == 0 {
                Op::Clear
            } else {
                Op::IterRev
            }
        }
        15 => Op::Resize(pick(r.u16(2), len + 8), v, try_),
        16 => Op::ResizeWith(pick(r.u16(2), len + 8), v, try_),
        17 | 18 => Op::ExtendClone(vals(r, n_small), try_),
        19 => Op::ExtendWithin(range, try_),
        20 => Op::ExtendIter(vals(r, n_small), r.b(6)),
        21 | 22 => Op::Append(
            vals(r, n_small),
            [Src::Array4, Src::StdVec, Src::BoxSlice, Src::VecIntoIter, Src::VecDrain, Src::MutRefVec][r.b(6) as usize % 6],
            try_,
        ),
        23 | 24 => Op::Drain(range, r.b(8) as usize % 4, r.b(9) as usize % 3, [DrainEnd::Drop, DrainEnd::Drop, DrainEnd::KeepRest, DrainEnd::Forget][r.b(10) as usize % 4]),
        25 => Op::ExtractIf(1 + v % 3, r.b(8) as usize % 6),
        26 => Op::Retain(1 + v % 3),
        27 => match r.b(5) % 3 {
            0 => Op::Dedup,
            1 => Op::DedupByKey(1 + v % 3),
            _ => Op::DedupBy(1 + v % 3),
        },
        28 | 29 if matches!(mix, CMix::C07 | CMix::C08) && r.b(6) % 8 == 0 => {
            // requests whose byte size cannot be represented: a try_ method reports them as an error
            let n = match r.b(7) % 5 {
                0 => usize::MAX,
                1 => usize::MAX - len,
                2 => usize::MAX / 16 + 2,
                3 => isize::MAX as usize / 16 + 1 + r.b(8) as usize,
                _ => (usize::MAX / 32 + 1) - len.min(8),
            };
            // (the panicking twin unwinds with "capacity overflow", like std; not under fault plans, where a
            //  refused grant in a panicking method would abort)
            let t = faulty || r.b(9) & 1 == 0;
            if sel == 28 { Op::Reserve(n, t) } else { Op::ReserveExact(n, t) }
        }
        28 => Op::Reserve(if mix == CMix::C07 { r.b(5) as usize * 3 } else { r.b(5) as usize % 40 }, try_),
        29 => Op::ReserveExact(if mix == CMix::C07 { r.b(5) as usize * 3 } else { r.b(5) as usize % 40 }, try_),
        30 => {
            if r.b(5) & 1 == 0 {
                Op::ShrinkToFit
            } else {
                Op::ShrinkTo(idx(r.u16(2)))
            }
        }
        // third field: elements taken from the returned iterator (% 5) and the replacement's size_hint form (/ 5)
        31 => Op::Splice(range, vals(r, n_small % 6), r.b(8) as usize % if faulty { 20 } else { 25 }),
        _ => {
            let _ = kind;
            Op::SplitOff(range)
        }
    }
}

enum MRes {
    Unit,
    Val(Option<u32>),
    Vals(Vec<u32>),
    Part(Vec<u32>),
    Panic,
    /// std panics part way through and leaves the vector in this state (capacity overflow inside `Splice::drop`)
    PanicState(Vec<u32>),
    /// state unknown afterwards (leaked drain): resynchronise
    Resync(Vec<u32>),
}

fn append_vals(vs: &[u32], src: Src) -> Vec<u32> {
    match src {
        Src::Array4 => (0..4).map(|i| vs.get(i).copied().unwrap_or(0)).collect(),
        Src::StdVec | Src::BoxSlice | Src::MutRefVec => vs.to_vec(),
        Src::VecIntoIter => vs.iter().skip(1).copied().collect(),
        Src::VecDrain => vs[vs.len() / 3..].to_vec(),
    }
}

/// reference semantics on a std Vec (front = index 0). `rev`: the reverse vector's documented
/// mirrored behaviour (DESIGN.md appendix A).
fn model_apply(m: &mut Vec<u32>, op: &Op, rev: bool) -> MRes {
    let len = m.len();
    match op {
        Op::Push(v, _, _) => {
            if rev { m.insert(0, *v) } else { m.push(*v) }
            MRes::Unit
        }
        Op::Insert(i, v, _) => {
            if *i > len {
                return MRes::Panic;
            }
            m.insert(*i, *v);
            MRes::Unit
        }
        Op::Remove(i) => {
            if *i >= len {
                return MRes::Panic;
            }
            MRes::Val(Some(m.remove(*i)))
        }
        Op::SwapRemove(i) => {
            if *i >= len {
                return MRes::Panic;
            }
            if rev {
                let first = m.remove(0);
                if *i == 0 { MRes::Val(Some(first)) } else { MRes::Val(Some(std::mem::replace(&mut m[*i - 1], first))) }
            } else {
                MRes::Val(Some(m.swap_remove(*i)))
            }
        }
        Op::Pop => {
            if rev {
                if m.is_empty() { MRes::Val(None) } else { MRes::Val(Some(m.remove(0))) }
            } else {
                MRes::Val(m.pop())
            }
        }
        Op::PopIf(k) => {
            let cand = if rev { m.first().copied() } else { m.last().copied() };
            match cand {
                Some(x) if x % k == 0 => {
                    if rev {
                        m.remove(0);
                    } else {
                        m.pop();
                    }
                    MRes::Val(Some(x))
                }
                _ => MRes::Val(None),
            }
        }
        Op::Truncate(n) => {
            if rev {
                while m.len() > *n {
                    m.remove(0);
                }
            } else {
                m.truncate(*n);
            }
            MRes::Unit
        }
        Op::Clear => {
            m.clear();
            MRes::Unit
        }
        Op::IterRev => MRes::Vals(m.iter().rev().copied().collect()),
        Op::Resize(n, v, _) => {
            if rev {
                while m.len() > *n {
                    m.remove(0);
                }
                while m.len() < *n {
                    m.insert(0, *v);
                }
            } else {
                m.resize(*n, *v);
            }
            MRes::Unit
        }
        Op::ResizeWith(n, v, _) => {
            let mut k = *v;
            if rev {
                while m.len() > *n {
                    m.remove(0);
                }
                while m.len() < *n {
                    k = k.wrapping_add(1);
                    m.insert(0, k);
                }
            } else {
                m.resize_with(*n, || {
                    k = k.wrapping_add(1);
                    k
                });
            }
            MRes::Unit
        }
        Op::ExtendClone(vs, _) => {
            if rev {
                let mut n = vs.clone();
                n.extend_from_slice(m);
                *m = n;
            } else {
                m.extend_from_slice(vs);
            }
            MRes::Unit
        }
        Op::ExtendWithin(r, _) => match resolve(r, len) {
            None => MRes::Panic,
            Some((s, e)) => {
                if rev {
                    let mut n = m[s..e].to_vec();
                    n.extend_from_slice(m);
                    *m = n;
                } else {
                    m.extend_from_within(s..e);
                }
                MRes::Unit
            }
        },
        Op::ExtendIter(vs, _) => {
            for v in vs {
                if rev { m.insert(0, *v) } else { m.push(*v) }
            }
            MRes::Unit
        }
        Op::Append(vs, src, _) => {
            let a = append_vals(vs, *src);
            if rev {
                let mut n = a;
                n.extend_from_slice(m);
                *m = n;
            } else {
                m.extend(a);
            }
            MRes::Unit
        }
        Op::Drain(r, f, b, end) => match resolve(r, len) {
            None => MRes::Panic,
            Some((s, e)) => {
                let mut range: Vec<u32> = m[s..e].to_vec();
                let mut out = vec![];
                for _ in 0..*f {
                    if range.is_empty() {
                        break;
                    }
                    out.push(range.remove(0));
                }
                for _ in 0..*b {
                    match range.pop() {
                        Some(x) => out.push(x),
                        None => break,
                    }
                }
                match end {
                    DrainEnd::Drop => {
                        m.drain(s..e);
                        MRes::Vals(out)
                    }
                    DrainEnd::KeepRest => {
                        m.splice(s..e, range);
                        MRes::Vals(out)
                    }
                    DrainEnd::Forget => MRes::Resync(out),
                }
            }
        },
        Op::ExtractIf(k, take) => {
            let mut out = vec![];
            let mut i = 0;
            while i < m.len() && out.len() < *take {
                if m[i] % k == 0 {
                    out.push(m.remove(i));
                } else {
                    i += 1;
                }
            }
            MRes::Vals(out)
        }
        Op::Retain(k) => {
            m.retain(|x| x % k != 0);
            MRes::Unit
        }
        Op::Dedup => {
            m.dedup();
            MRes::Unit
        }
        Op::DedupByKey(k) => {
            m.dedup_by_key(|x| *x % k);
            MRes::Unit
        }
        Op::DedupBy(k) => {
            m.dedup_by(|a, b| dedup_rel(*a, *b, *k));
            MRes::Unit
        }
        Op::SplitOff(r) => match resolve(r, len) {
            None => MRes::Panic,
            Some((s, e)) => MRes::Part(m.drain(s..e).collect()),
        },
        Op::Reserve(..) | Op::ReserveExact(..) | Op::ShrinkToFit | Op::ShrinkTo(_) => MRes::Unit,
        Op::Splice(r, vs, consume) => match resolve(r, len) {
            None => MRes::Panic,
            Some((s, e)) if *consume / 5 >= 4 => {
                // the replacement claims an unrepresentable lower bound: std panics with "capacity overflow" inside
                // Splice::drop when it moves the tail (if there is a tail and the gap was too small) and puts the
                // tail back; run std itself to learn the state it leaves
                struct Huge(std::vec::IntoIter<u32>);
                impl Iterator for Huge {
                    type Item = u32;
                    fn next(&mut self) -> Option<u32> {
                        self.0.next()
                    }
                    fn size_hint(&self) -> (usize, Option<usize>) {
                        (usize::MAX / 8, None)
                    }
                }
                let mut c = m.clone();
                let take = *consume % 5;
                let r = catch_unwind(AssertUnwindSafe(|| c.splice(s..e, Huge(vs.clone().into_iter())).take(take).collect::<Vec<u32>>()));
                match r {
                    Ok(removed) => {
                        *m = c;
                        MRes::Vals(removed)
                    }
                    Err(_) => MRes::PanicState(c),
                }
            }
            Some((s, e)) => {
                let removed: Vec<u32> = m.splice(s..e, vs.iter().copied()).collect();
                MRes::Vals(removed.into_iter().take(*consume % 5).collect())
            }
        },
    }
}

/// how many elements an operation adds at most (for "no reallocation while capacity suffices")
fn added(op: &Op, len: usize) -> Option<usize> {
    Some(match op {
        Op::Push(..) | Op::Insert(..) => 1,
        Op::Resize(n, ..) | Op::ResizeWith(n, ..) => n.saturating_sub(len),
        Op::ExtendClone(vs, _) => vs.len(),
        Op::ExtendWithin(r, _) => resolve(r, len).map(|(s, e)| e - s)?,
        Op::Append(vs, src, _) => append_vals(vs, *src).len(),
        // an iterator whose size_hint promises more than it yields may legitimately cause a reservation
        Op::ExtendIter(vs, h) if h % 4 != 3 => vs.len(),
        _ => return None,
    })
}

fn is_growth(op: &Op) -> bool {
    matches!(op, Op::Push(..) | Op::Insert(..) | Op::Resize(..) | Op::ResizeWith(..) | Op::ExtendClone(..) | Op::ExtendWithin(..) | Op::Append(..) | Op::ExtendIter(..) | Op::Reserve(..) | Op::ReserveExact(..) | Op::Splice(..))
}

fn is_try(op: &Op) -> Option<bool> {
    Some(match op {
        Op::Push(_, t, _) | Op::Insert(_, _, t) | Op::Resize(_, _, t) | Op::ResizeWith(_, _, t) | Op::ExtendClone(_, t) | Op::ExtendWithin(_, t) | Op::Append(_, _, t) | Op::Reserve(_, t) | Op::ReserveExact(_, t) => *t,
        _ => return None,
    })
}

struct Hdr {
    cell: usize,
    ma: usize,
    elem: u8,
    first_kind: u8,
    panic_at: Option<u64>,
    inject_drop: bool,
    plan: FaultPlan,
    policy: GrantPolicy,
    congruence: u64,
    prealloc: usize,
    ctor: u8,
}

fn decode_hdr(h: &[u8], mix: CMix) -> Hdr {
    let b = |i: usize| h.get(i).copied().unwrap_or(0);
    let ncells = cells().len();
    let panic_at = match mix {
        CMix::C06 => {
            if b(3) % 5 != 0 { Some(1 + (b(4) as u64 % 24)) } else { None }
        }
        CMix::C15 => {
            if b(3) % 4 == 0 { Some(1 + (b(4) as u64 % 24)) } else { None }
        }
        _ => None,
    };
    // (one case in eight of the C07 mix runs without a fault plan: overflow requests and the panicking twins -
    //  capacity overflow is reported by unwinding - need an allocator that does not refuse)
    let plan = if mix == CMix::C07 && b(5) % 8 != 7 {
        match b(5) % 4 {
            0 | 1 => FaultPlan { mask: 0, from: Some(1 + b(6) as u64 % 3), enabled: true },
            _ => FaultPlan { mask: 1u64 << (1 + b(6) % 4), from: None, enabled: true },
        }
    } else {
        FaultPlan::default()
    };
    Hdr {
        cell: b(0) as usize % ncells,
        ma: 1 << (b(1) % 5),
        elem: b(2),
        first_kind: b(7),
        panic_at,
        inject_drop: mix == CMix::C06 && b(3) % 3 == 0,
        plan,
        policy: if b(8) % 3 == 0 { GrantPolicy::Plus(1 + b(9) as usize % 40) } else { GrantPolicy::Exact },
        congruence: u64::from_le_bytes([b(8), b(9), b(10), b(11), b(12), b(13), b(14), b(15)]),
        // (no pre-allocation in a quarter of the cases: the first prepared allocation then meets an untouched,
        //  possibly unallocated arena)
        prealloc: if b(13) % 4 == 0 { 0 } else { b(10) as usize % 97 },
        ctor: b(11),
    }
}

impl CollEngine {
    pub fn new(prop: &str) -> Self {
        let mix = match prop {
            "C06" => CMix::C06,
            "C15" => CMix::C15,
            "C16" => CMix::C16,
            "C07" => CMix::C07,
            _ => CMix::C08,
        };
        CollEngine { mix }
    }
}

fn probe<A: BumpAllocatorCore + ?Sized>(a: &A, up: bool) -> StatsSnap {
    snap_any(a.any_stats(), up)
}

/// drives one case for element type T
fn run_t<'a, T: Elem + Clone + PartialEq>(st: &mut St, h: &Hdr, arena: &mut (dyn MutBumpAllocatorCoreScope<'a> + 'a), info: Info)
where
    T: 'a,
{
    let mutkinds = matches!(st.mix, CMix::C15) || (st.mix != CMix::C16 && h.first_kind % 5 >= 3);
    // some unrelated allocations first, so that the position sits at every congruence
    {
        let sh: &dyn MutBumpAllocatorCoreScope<'a> = &*arena;
        if h.prealloc > 0 {
            let _ = sh.try_alloc_slice_fill_with::<u8>(h.prealloc, || 0xEE);
        }
    }
    if mutkinds {
        run_mut::<T>(st, h, arena, info);
    } else {
        run_shared::<T>(st, h, &*arena, info);
    }
}

fn new_shared<'a: 'b, 'b, T: Elem + Clone + PartialEq>(
    a: &'b (dyn MutBumpAllocatorCoreScope<'a> + 'a),
    kind: u8,
    init: &[u32],
    cap: usize,
) -> Option<Box<dyn VK<'b, T> + 'b>> {
    Some(match kind % 3 {
        0 => {
            // the slice-producing allocation helpers (C06: a panicking Clone / closure / iterator in the middle
            // loses and double-drops nothing; C08: the slice holds the items in order)
            let mk = || init.iter().map(|v| T::make(*v)).collect::<Vec<T>>();
            let all_equal = init.windows(2).all(|w| w[0] == w[1]);
            let b: BumpBox<'b, [T]> = match cap % 10 {
                0 => a.try_alloc_iter_exact(init.iter().map(|v| T::make(*v))).ok()?,
                1 => {
                    let src = mk();
                    a.try_alloc_slice_clone(&src).ok()?
                }
                2 => {
                    let mut i = 0;
                    a.try_alloc_slice_fill_with(init.len(), || {
                        tick("fill_with");
                        i += 1;
                        T::make(init[i - 1])
                    })
                    .ok()?
                }
                3 if all_equal && !init.is_empty() => a.try_alloc_slice_fill(init.len(), T::make(init[0])).ok()?,
                4 => a.try_alloc_slice_move(mk()).ok()?,
                5 => a.try_alloc_iter(hint_iter::<T>(init, cap as u8 / 10)).ok()?,
                6 => {
                    let src = mk();
                    a.try_alloc_uninit_slice::<T>(init.len()).ok()?.init_clone(&src)
                }
                7 => {
                    let mut i = 0;
                    a.try_alloc_uninit_slice::<T>(init.len()).ok()?.init_fill_with(|| {
                        tick("init_fill_with");
                        i += 1;
                        T::make(init[i - 1])
                    })
                }
                8 => a.try_alloc_uninit_slice::<T>(init.len()).ok()?.init_fill_iter(hint_iter::<T>(init, 0)),
                _ => a.try_alloc_uninit_slice::<T>(init.len()).ok()?.init_move(mk()),
            };
            Box::new(KBoxed(b))
        }
        1 => {
            let mut f = FixedBumpVec::try_with_capacity_in(init.len() + cap, a).ok()?;
            for v in init {
                f.push(T::make(*v));
            }
            Box::new(KFixed(f))
        }
        _ => {
            let mut v: BumpVec<T, &'b (dyn MutBumpAllocatorCoreScope<'a> + 'a)> = if cap % 2 == 0 { BumpVec::new_in(a) } else { BumpVec::try_with_capacity_in(cap, a).ok()? };
            for x in init {
                v.try_push(T::make(*x)).ok()?;
            }
            Box::new(KVec(v))
        }
    })
}

fn check_registry(st: &mut St, what: &str) {
    let (dd, bc) = with_reg(|r| (r.double_drop.take(), r.bad_canary.take()));
    if let Some(m) = dd {
        st.fail("C06/double-drop", format!("{what}: {m}"));
    }
    if let Some(m) = bc {
        st.fail("C06/use-after-move", format!("{what}: {m}"));
    }
}

fn check_live_ids(st: &mut St, snap: &[(u32, u32)], what: &str) {
    let bad = with_reg(|r| snap.iter().find(|(id, _)| *id != 0 && r.dropped.get(*id as usize - 1).copied().unwrap_or(0) > 0).copied());
    if let Some((id, v)) = bad {
        st.fail("C06/dropped-still-present", format!("{what}: value id {id} (v={v}) is still in a collection after it was dropped"));
    }
}

/// apply one op to (real, model) and compare
fn step<'b, T: Elem + Clone + PartialEq>(st: &mut St, l: &mut Live<'b, T>, op: &Op, rev: bool) -> Option<Box<dyn VK<'b, T> + 'b>> {
    let kind = l.v.kind();
    let len0 = l.v.len();
    let cap0 = l.v.capacity();
    let ptr0 = l.v.ptr();
    let ids0: Vec<(u32, u32)> = l.v.snapshot();
    let what = format!("{kind:?}<{}> len {len0} cap {cap0}: {op:?}", T::NAME);
    st.note(|| what.clone());
    let (calls0, faults0) = with_ctx(0, |c| (c.calls, c.faults_fired));
    let fired_before = with_reg(|r| r.fired.is_some());
    let ids_before_op = with_reg(|r| r.dropped.len()) as u32;
    let real = catch_unwind(AssertUnwindSafe(|| l.v.apply(op)));
    let fired_now = !fired_before && with_reg(|r| r.fired.is_some());
    let faults = with_ctx(0, |c| c.faults_fired) - faults0;
    let _ = calls0;
    st.kinds_used.insert(kind as u8);
    if matches!(real, Ok(Res::Unsupported)) {
        st.nops += 1;
        return None;
    }
    st.ops += 1;
    st.mixh(fnv_op(op) ^ (kind as u64) << 40);
    // injected panic: resynchronise, only structural validity and drop accounting are judged
    if fired_now {
        st.injected_seen = true;
        st.class("panic_injected");
        if len0 >= 2 {
            st.class("panic_injected_len2");
        }
        let kindname = with_reg(|r| r.fired.unwrap_or("?"));
        if kindname == "drop" {
            for (id, _) in &ids0 {
                st.leak_ok.insert(*id);
            }
            // values created by this very operation (clones, closure results) may be lost, too
            let now = with_reg(|r| r.dropped.len()) as u32;
            for id in ids_before_op + 1..=now {
                st.leak_ok.insert(id);
            }
            if T::ZST {
                st.zst_leaked += len0 as i64 + 64;
            }
            st.class("panic_in_drop");
        }
        match real {
            Err(p) if p.is::<Marker>() => {}
            Err(p) => st.fail("panic/op", format!("{what}: unexpected panic while unwinding the injected one: {}", panic_message(&p))),
            Ok(_) => {} // the library may swallow nothing, but iterators adaptors may stop early
        }
        l.m = l.v.snapshot().iter().map(|(_, v)| *v).collect();
        check_registry(st, &what);
        let s = l.v.snapshot();
        check_live_ids(st, &s, &what);
        if l.v.len() > l.v.capacity() {
            st.fail("C08/len-le-capacity", format!("{what}: after the panic len {} > capacity {}", l.v.len(), l.v.capacity()));
        }
        return None;
    }
    // expected outcome
    let mut m2 = l.m.clone();
    let mut exp = model_apply(&mut m2, op, rev);
    if T::ZST {
        // zero-sized elements carry no value
        for x in m2.iter_mut() {
            *x = 0;
        }
        match &mut exp {
            MRes::Val(Some(x)) => *x = 0,
            MRes::Vals(v) | MRes::Part(v) | MRes::Resync(v) => v.iter_mut().for_each(|x| *x = 0),
            _ => {}
        }
    }
    // fixed-capacity kinds fail when full
    let adds = added(op, len0);
    let lying = matches!(op, Op::ExtendIter(vs, h) if h % 4 == 3 && len0 + vs.len() + 2 > cap0);
    let fixed_full = matches!(kind, KindId::Fixed) && !T::ZST && (adds.map(|a| len0 + a > cap0).unwrap_or(false) || lying) && !matches!(exp, MRes::Panic);
    let fixed_reserve_fail = matches!(kind, KindId::Fixed) && !T::ZST && matches!(op, Op::Reserve(n, _) if len0.saturating_add(*n) > cap0);
    let huge = matches!(op, Op::Reserve(n, _) | Op::ReserveExact(n, _) if *n > 1 << 48);
    if huge {
        st.class("overflow_request");
        // std panics with "capacity overflow" for the same request; zero-sized elements only overflow the count
        if is_try(op) == Some(false) {
            let n = match op {
                Op::Reserve(n, _) | Op::ReserveExact(n, _) => *n,
                _ => 0,
            };
            if !T::ZST || len0.checked_add(n).is_none() {
                exp = MRes::Panic;
            }
        }
    }
    let mut part = None;
    match real {
        Err(p) => {
            let msg = panic_message(&p);
            if fixed_full || fixed_reserve_fail {
                if is_try(op) == Some(true) {
                    st.fail("C08/fixed-full-try-err", format!("{what}: try_ method on a full fixed vector panicked: {msg}"));
                }
                st.class("fixed_full");
                // contents unchanged? (partial extend may have happened before the panic: resync)
                l.m = l.v.snapshot().iter().map(|(_, v)| *v).collect();
            } else if let MRes::PanicState(ms) = &exp {
                st.class("expected_panic");
                st.class("overflow_request");
                // capacity overflow in the middle of the operation: reported by unwinding, and the vector is left
                // exactly as std leaves it (nothing duplicated, nothing lost)
                let now: Vec<u32> = l.v.snapshot().iter().map(|(_, v)| *v).collect();
                if now != *ms {
                    st.fail("C07/collection-state-after-failure", format!("{what}: capacity overflow inside the operation left the contents {now:?}, std leaves {ms:?}"));
                }
                l.m = now;
            } else if matches!(exp, MRes::Panic) {
                st.class("expected_panic");
                // state after a caught panic: must equal the model's pre-state (std does not change it)
                let now: Vec<u32> = l.v.snapshot().iter().map(|(_, v)| *v).collect();
                if now != l.m {
                    st.fail("C08/state-after-arg-panic", format!("{what}: out-of-range argument panicked but changed the contents {:?} -> {now:?}", l.m));
                }
            } else if is_try(op) == Some(true) && (huge || faults > 0) {
                st.fail("C07/panic-instead-of-error", format!("{what}: a try_ method panicked ({msg}) instead of returning an error"));
            } else {
                let id = if matches!(op, Op::SplitOff(_)) { "C16/panic-verdict" } else { "C08/panic-verdict" };
                st.fail(id, format!("{what}: panicked ({msg}) where std does not"));
            }
        }
        Ok(res) => {
            if huge && !T::ZST && !matches!(res, Res::AllocErr) {
                st.fail("C07/overflow-accepted", format!("{what}: a request whose size cannot be represented returned {res:?}"));
            }
            if faults > 0 && !matches!(res, Res::AllocErr) && is_try(op).is_some() {
                st.fail("C07/ok-despite-failure", format!("{what}: a base-allocator call failed but the operation returned {res:?}"));
            }
            match (res, &mut exp) {
                (Res::AllocErr, e) => {
                    let explained = faults > 0 || fixed_full || fixed_reserve_fail || huge || with_ctx(0, |c| c.exhausted);
                    if !explained {
                        st.fail("C08/unexplained-error", format!("{what}: returned an allocation error without cause"));
                    }
                    if matches!(e, MRes::Panic) {
                        // index checks come first in std; an error here is acceptable only if nothing changed
                    }
                    if fixed_full || fixed_reserve_fail {
                        st.class("fixed_full");
                    }
                    if faults > 0 {
                        st.fault_seen = true;
                        st.class("fault_fired");
                    }
                    // a failed single push/insert/reserve/extend/append/resize keeps length and contents
                    let now: Vec<u32> = l.v.snapshot().iter().map(|(_, v)| *v).collect();
                    if now != l.m {
                        let single = !matches!(op, Op::ExtendIter(..) | Op::Splice(..));
                        if single && !(fixed_full && matches!(op, Op::ExtendIter(..))) {
                            st.fail("C07/collection-state-after-failure", format!("{what}: failed operation changed the contents {:?} -> {now:?}", l.m));
                        }
                        l.m = now;
                    }
                    if faults > 0 && (l.v.capacity() != cap0 || (!rev && l.v.ptr() != ptr0)) && !T::ZST {
                        st.fail("C07/collection-state-after-failure", format!("{what}: failed growth changed capacity {cap0} -> {} or the buffer", l.v.capacity()));
                    }
                }
                (r, MRes::PanicState(_)) => {
                    st.fail("C07/overflow-accepted", format!("{what}: returned {r:?} where std panics with a capacity overflow"));
                }
                (_, MRes::Panic) => {
                    let id = if matches!(op, Op::SplitOff(_)) { "C16/panic-verdict" } else { "C08/panic-verdict" };
                    st.fail(id, format!("{what}: returned normally where std panics (out-of-range argument)"));
                }
                (_, _) if fixed_full && !matches!(op, Op::ExtendIter(..)) => {
                    st.fail("C08/fixed-never-grows", format!("{what}: a full fixed vector accepted more elements"));
                }
                (Res::Unit, MRes::Unit) => l.m = m2,
                (Res::Val(a), MRes::Val(b)) => {
                    if a != *b {
                        st.fail("C08/returned-value", format!("{what}: returned {a:?}, std returns {b:?}"));
                    }
                    l.m = m2;
                }
                (Res::Vals(a), MRes::Vals(b)) => {
                    if a != *b {
                        st.fail("C08/returned-value", format!("{what}: yielded {a:?}, std yields {b:?}"));
                    }
                    l.m = m2;
                    if matches!(op, Op::Drain(..) | Op::Splice(..) | Op::ExtractIf(..)) {
                        st.partial_drop = true;
                        st.class("partial_iterator");
                    }
                }
                (Res::Vals(a), MRes::Resync(b)) => {
                    if a != *b {
                        st.fail("C08/returned-value", format!("{what}: yielded {a:?}, std yields {b:?}"));
                    }
                    // leaked drain: everything from the range start on may be leaked
                    if let Op::Drain(r, ..) = op {
                        if let Some((s, _)) = resolve(r, len0) {
                            for (id, _) in &ids0[s..] {
                                st.leak_ok.insert(*id);
                            }
                            if T::ZST {
                                st.zst_leaked += (len0 - s) as i64;
                            }
                        }
                    }
                    st.class("drain_forgotten");
                    l.m = l.v.snapshot().iter().map(|(_, v)| *v).collect();
                }
                (Res::Part(p), MRes::Part(b)) => {
                    let got: Vec<u32> = p.snapshot().iter().map(|(_, v)| *v).collect();
                    if got != *b {
                        st.fail("C16/partition", format!("{what}: split-off part holds {got:?}, expected the range {b:?}"));
                    }
                    l.m = m2;
                    // the two parts are separate blocks (checked before the capacity rule: an overlap is the C01 view
                    // of the same mistake)
                    if !T::ZST && p.capacity() > 0 && l.v.capacity() > 0 {
                        let esz = std::mem::size_of::<T>();
                        let (a0, a1) = (p.ptr(), p.ptr() + p.capacity() * esz);
                        let (b0, b1) = (l.v.ptr(), l.v.ptr() + l.v.capacity() * esz);
                        if a0 < b1 && b0 < a1 {
                            st.fail("C16/parts-disjoint", format!("{what}: the buffers of the two parts overlap ({a0:#x}..{a1:#x} / {b0:#x}..{b1:#x})"));
                        }
                    }
                    // capacities add up
                    if !T::ZST && matches!(kind, KindId::Fixed | KindId::Vec) && p.capacity() + l.v.capacity() != cap0 {
                        st.fail("C16/capacity-sum", format!("{what}: capacities {} + {} != original {cap0}", l.v.capacity(), p.capacity()));
                    }
                    if T::ZST && matches!(kind, KindId::Fixed | KindId::Vec) && (p.capacity() != usize::MAX || l.v.capacity() != usize::MAX) {
                        st.fail("C16/capacity-sum", format!("{what}: zero-sized parts report capacities {} / {}", l.v.capacity(), p.capacity()));
                    }
                    st.class("split_off");
                    part = Some(p);
                }
                (r, _) => st.fail("C08/result-shape", format!("{what}: unexpected result {r:?}")),
            }
        }
    }
    if st.stop {
        return part;
    }
    // contents
    let now: Vec<(u32, u32)> = l.v.snapshot();
    let nowv: Vec<u32> = now.iter().map(|(_, v)| *v).collect();
    if nowv != l.m {
        let id = if matches!(op, Op::SplitOff(_)) { "C16/partition" } else { "C08/contents" };
        st.fail(id, format!("{what}: contents {nowv:?} != model {:?}", l.m));
    }
    check_registry(st, &what);
    check_live_ids(st, &now, &what);
    // capacity rules
    let (len1, cap1, ptr1) = (l.v.len(), l.v.capacity(), l.v.ptr());
    if len1 != l.m.len() {
        st.fail("C08/len", format!("{what}: len() {len1} != {}", l.m.len()));
    }
    if cap1 < len1 {
        st.fail("C08/len-le-capacity", format!("{what}: capacity {cap1} < len {len1}"));
    }
    if T::ZST && !matches!(kind, KindId::Boxed) && cap1 != usize::MAX {
        st.fail("C08/zst-capacity", format!("{what}: zero-sized elements but capacity() == {cap1}"));
    }
    if let Op::Reserve(n, _) | Op::ReserveExact(n, _) = op {
        if !fixed_reserve_fail && !huge && faults == 0 && cap1 < len0.saturating_add(*n) && !with_ctx(0, |c| c.exhausted) {
            st.fail("C08/reserve-promise", format!("{what}: capacity {cap1} < len {len0} + reserved {n}"));
        }
    }
    if let Some(a) = adds {
        if !T::ZST && len0 + a <= cap0 && !matches!(kind, KindId::Boxed) {
            if cap1 != cap0 || (!rev && ptr1 != ptr0) {
                st.fail("C08/no-realloc-within-capacity", format!("{what}: added {a} element(s) within capacity {cap0} but buffer/capacity changed ({ptr0:#x},{cap0}) -> ({ptr1:#x},{cap1})"));
            }
        } else if len0 + a > cap0 && !T::ZST {
            st.realloc_or_range = true;
            st.class("reallocated");
        }
    }
    if matches!(kind, KindId::Fixed) && !matches!(op, Op::SplitOff(_)) && !T::ZST && (ptr1 != ptr0 || cap1 != cap0) {
        st.fail("C08/fixed-never-reallocates", format!("{what}: fixed vector changed buffer/capacity ({ptr0:#x},{cap0}) -> ({ptr1:#x},{cap1})"));
    }
    if matches!(op, Op::Drain(..) | Op::Splice(..) | Op::SplitOff(_) | Op::ExtendWithin(..)) && len0 >= 3 {
        st.realloc_or_range = true;
    }
    if !matches!(op, Op::IterRev | Op::Reserve(..) | Op::ReserveExact(..)) {
        st.mutating += 1;
    }
    if st.fault_seen {
        st.ops_after_fault += 1;
    }
    part
}

fn vals_of<T: Elem>(b: &[T]) -> Vec<u32> {
    b.iter().map(|e| e.val()).collect()
}

/// consuming split / merge operations of `BumpBox<[T]>` (C16)
fn boxed_structural<'b, T: Elem + Clone + PartialEq + 'b>(st: &mut St, r: &Rec, l: Live<'b, T>, lives: &mut Vec<Live<'b, T>>) {
    let m = l.m.clone();
    let len = m.len();
    let Some(bx) = l.v.take_boxed() else { return };
    let sel = r.b(0) % 7;
    let i = pick(r.u16(2), len + 2);
    let what = format!("BumpBox<[{}]> {m:?}: structural op {sel} (index {i})", T::NAME);
    st.note(|| what.clone());
    st.ops += 1;
    st.mixh(0xB0 ^ (sel as u64) << 8 ^ (i as u64) << 16);
    let ptr0 = bx.as_ptr() as usize;
    let push = |lives: &mut Vec<Live<'b, T>>, b: BumpBox<'b, [T]>| {
        let mv = vals_of(&b);
        lives.push(Live { v: Box::new(KBoxed(b)), m: mv, promised: 1 });
    };
    match sel {
        0 | 1 => {
            // split_at, then either keep both parts or merge them back
            let res = catch_unwind(AssertUnwindSafe(|| bx.split_at(i)));
            match res {
                Err(_) => {
                    if i <= len {
                        st.fail("C16/panic-verdict", format!("{what}: split_at({i}) panicked for len {len}"));
                    }
                    st.class("expected_panic");
                }
                Ok((a, b)) => {
                    if i > len {
                        st.fail("C16/panic-verdict", format!("{what}: split_at({i}) beyond len {len} did not panic"));
                        return;
                    }
                    if vals_of(&a) != m[..i] || vals_of(&b) != m[i..] {
                        st.fail("C16/partition", format!("{what}: split_at gave {:?} / {:?}", vals_of(&a), vals_of(&b)));
                        return;
                    }
                    st.class("split_at");
                    match r.b(5) % 3 {
                        0 => {
                            push(lives, a);
                            push(lives, b);
                        }
                        1 => {
                            let merged = catch_unwind(AssertUnwindSafe(|| a.merge(b)));
                            match merged {
                                Ok(mb) => {
                                    if vals_of(&mb) != m || (!T::ZST && !m.is_empty() && mb.as_ptr() as usize != ptr0) {
                                        st.fail("C16/merge", format!("{what}: merge of adjacent parts gave {:?} at {:#x} (original at {ptr0:#x})", vals_of(&mb), mb.as_ptr() as usize));
                                    }
                                    st.class("merged");
                                    push(lives, mb);
                                }
                                Err(p) => st.fail("C16/merge", format!("{what}: merging adjacent parts panicked: {}", panic_message(&p))),
                            }
                        }
                        _ => {
                            // wrong order: not contiguous (unless a part is empty or T is zero-sized)
                            let (la, lb) = (a.len(), b.len());
                            let merged = catch_unwind(AssertUnwindSafe(|| b.merge(a)));
                            if !T::ZST && la > 0 && lb > 0 {
                                if let Ok(mb) = merged {
                                    st.fail("C16/merge", format!("{what}: merging non-adjacent parts (wrong order) did not panic, gave {:?}", vals_of(&mb)));
                                }
                                st.class("merge_rejected");
                            }
                        }
                    }
                }
            }
        }
        2 | 3 => {
            let first = sel == 2;
            let res = if first { bx.split_first() } else { bx.split_last() };
            match res {
                None => {
                    if len != 0 {
                        st.fail("C16/partition", format!("{what}: split_first/last returned None for len {len}"));
                    }
                }
                Some((one, rest)) => {
                    let (ev, er): (u32, &[u32]) = if first { (m[0], &m[1..]) } else { (m[len - 1], &m[..len - 1]) };
                    if len == 0 || one.val() != ev || vals_of(&rest) != er {
                        st.fail("C16/partition", format!("{what}: split_first/last gave {} / {:?}", one.val(), vals_of(&rest)));
                    }
                    drop(one);
                    push(lives, rest);
                }
            }
        }
        4 | 5 => {
            let first = sel == 4;
            let mut bx = bx;
            let one = if first { bx.split_off_first() } else { bx.split_off_last() };
            match one {
                None => {
                    if len != 0 {
                        st.fail("C16/partition", format!("{what}: split_off_first/last returned None for len {len}"));
                    }
                }
                Some(o) => {
                    let (ev, er): (u32, &[u32]) = if first { (m[0], &m[1..]) } else { (m[len - 1], &m[..len - 1]) };
                    if o.val() != ev || vals_of(&bx) != er {
                        st.fail("C16/partition", format!("{what}: split_off_first/last gave {} / {:?}", o.val(), vals_of(&bx)));
                    }
                }
            }
            push(lives, bx);
        }
        _ => {
            let k = 1 + (r.b(4) as u32 % 3);
            let (t, f) = bx.partition(|e| e.val() % k == 0);
            let (tv, fv) = (vals_of(&t), vals_of(&f));
            let mut all: Vec<u32> = tv.iter().chain(fv.iter()).copied().collect();
            let mut orig = m.clone();
            all.sort();
            orig.sort();
            if all != orig || tv.iter().any(|x| x % k != 0) || fv.iter().any(|x| x % k == 0) {
                st.fail("C16/partition", format!("{what}: partition by % {k} gave {tv:?} / {fv:?}"));
            }
            st.class("partitioned");
            push(lives, t);
            push(lives, f);
        }
    }
    check_registry(st, &what);
}

fn fnv_op(op: &Op) -> u64 {
    bsv_core::runner::fnv(format!("{op:?}").as_bytes())
}

fn run_shared<'a: 'b, 'b, T: Elem + Clone + PartialEq>(st: &mut St, h: &Hdr, a: &'b (dyn MutBumpAllocatorCoreScope<'a> + 'a), info: Info) {
    let mut lives: Vec<Live<'b, T>> = Vec::new();
    let mut init = vals(&Rec(&[h.ctor; 16]), h.ctor as usize % 9);
    if T::ZST {
        init.iter_mut().for_each(|x| *x = 0);
    }
    let kind0 = if st.mix == CMix::C16 { h.first_kind % 3 } else { h.first_kind % 5 % 3 };
    match new_shared::<T>(a, kind0, &init, h.ctor as usize % 11) {
        Some(v) => lives.push(Live { v, m: init.clone(), promised: 0 }),
        None => return,
    }
    let mut grew_after_split = false;
    while st.pos < st.recs.len() && !st.stop {
        let r = Rec(st.recs[st.pos]);
        st.pos += 1;
        if lives.is_empty() {
            let mut iv = vals(&r, r.b(5) as usize % 9);
            if T::ZST {
                iv.iter_mut().for_each(|x| *x = 0);
            }
            match new_shared::<T>(a, r.b(6), &iv, r.b(7) as usize % 11) {
                Some(v) => lives.push(Live { v, m: iv, promised: 0 }),
                None => continue,
            }
            continue;
        }
        let which = pick(r.u16(12), lives.len());
        let meta = r.b(14) % 16;
        // structural operations on the set of vectors
        if meta == 0 && lives.len() < 4 {
            let mut iv = vals(&r, r.b(5) as usize % 9);
            if T::ZST {
                iv.iter_mut().for_each(|x| *x = 0);
            }
            if let Some(v) = new_shared::<T>(a, r.b(6), &iv, r.b(7) as usize % 11) {
                st.note(|| format!("new {:?} {iv:?}", v.kind()));
                lives.push(Live { v, m: iv, promised: 0 });
            }
            continue;
        }
        if meta == 1 {
            // unrelated allocation in between
            let _ = a.try_alloc_slice_fill_with::<u8>(1 + r.b(5) as usize % 50, || 0xEE);
            continue;
        }
        if (meta == 2 || meta == 3) && r.b(5) % 6 == 5 {
            let l = lives.remove(which);
            map_cross_step::<T>(st, l, r.b(6), r.b(7), &lives);
            continue;
        }
        if meta == 2 || meta == 3 {
            let l = lives.remove(which);
            let how = match r.b(5) % 6 {
                0 => Consume::Drop,
                1 => Consume::IntoBoxedSlice,
                2 => Consume::IntoIter(r.b(6) as usize % 4, r.b(7) as usize % 3),
                3 => Consume::MapInPlace,
                4 => Consume::IntoFixed,
                _ => Consume::Drop,
            };
            let what = format!("consume {:?} len {} by {how:?}", l.v.kind(), l.v.len());
            st.note(|| what.clone());
            let m = l.m.clone();
            let fired_before = with_reg(|r| r.fired.is_some());
            let ids0 = l.v.snapshot();
            let ids_before_op = with_reg(|r| r.dropped.len()) as u32;
            let res = catch_unwind(AssertUnwindSafe(|| l.v.consume(how)));
            let fired_now = !fired_before && with_reg(|r| r.fired.is_some());
            st.ops += 1;
            match res {
                Ok((rest, yielded)) => {
                    let mut expm = m.clone();
                    let mut expy = vec![];
                    match how {
                        Consume::IntoIter(f, b) => {
                            for _ in 0..f {
                                if !expm.is_empty() {
                                    expy.push(expm.remove(0));
                                }
                            }
                            for _ in 0..b {
                                if let Some(x) = expm.pop() {
                                    expy.push(x);
                                }
                            }
                            st.partial_drop = true;
                            st.class("partial_iterator");
                        }
                        Consume::MapInPlace => {
                            for x in expm.iter_mut() {
                                *x = if T::ZST { 0 } else { x.wrapping_add(1) };
                            }
                        }
                        _ => {}
                    }
                    if !fired_now && yielded != expy {
                        st.fail("C08/returned-value", format!("{what}: yielded {yielded:?}, expected {expy:?}"));
                    }
                    if let Some(v) = rest {
                        let got: Vec<u32> = v.snapshot().iter().map(|(_, x)| *x).collect();
                        if !fired_now && got != expm {
                            st.fail("C08/conversion-contents", format!("{what}: contents after conversion {got:?} != {expm:?}"));
                        }
                        lives.push(Live { v, m: got, promised: 0 });
                    }
                }
                Err(p) => {
                    if !(fired_now && p.is::<Marker>()) {
                        st.fail("panic/op", format!("{what}: unexpected panic {}", panic_message(&p)));
                    } else {
                        st.injected_seen = true;
                        st.class("panic_injected");
                        if with_reg(|r| r.fired) == Some("drop") {
                            for (id, _) in &ids0 {
                                st.leak_ok.insert(*id);
                            }
                            let now = with_reg(|r| r.dropped.len()) as u32;
                            for id in ids_before_op + 1..=now {
                                st.leak_ok.insert(id);
                            }
                            if T::ZST {
                                st.zst_leaked += ids0.len() as i64 + 64;
                            }
                        }
                    }
                }
            }
            check_registry(st, &what);
            continue;
        }
        if st.mix == CMix::C16 && meta == 6 && !T::ZST && lives.len() >= 2 && with_reg(|r| r.panic_at.is_none()) {
            // merge two live BumpBox<[T]> (possibly empty, possibly far apart): accepted exactly when the first ends
            // where the second starts
            let other = pick(r.u16(2), lives.len());
            if other != which && lives[which].v.kind() == KindId::Boxed && lives[other].v.kind() == KindId::Boxed {
                let (hi, lo) = (which.max(other), which.min(other));
                let lb = lives.remove(hi);
                let la = lives.remove(lo);
                let (first, second) = if which < other { (la, lb) } else { (lb, la) };
                let (m1, m2) = (first.m.clone(), second.m.clone());
                let (Some(b1), Some(b2)) = (first.v.take_boxed(), second.v.take_boxed()) else { continue };
                let esz = std::mem::size_of::<T>();
                let adjacent = b1.as_ptr() as usize + b1.len() * esz == b2.as_ptr() as usize;
                let what = format!("merge of two live slices {m1:?} @ {:#x} and {m2:?} @ {:#x} (adjacent: {adjacent})", b1.as_ptr() as usize, b2.as_ptr() as usize);
                st.note(|| what.clone());
                st.ops += 1;
                st.mixh(0x3e46e ^ (m1.len() as u64) << 20 ^ (m2.len() as u64) << 32 ^ adjacent as u64);
                match catch_unwind(AssertUnwindSafe(|| b1.merge(b2))) {
                    Ok(mb) => {
                        let mut exp = m1.clone();
                        exp.extend_from_slice(&m2);
                        if !adjacent {
                            st.fail("C16/merge", format!("{what}: merging non-adjacent parts did not panic, gave {:?}", vals_of(&mb)));
                        } else if vals_of(&mb) != exp {
                            st.fail("C16/merge", format!("{what}: gave {:?}, expected {exp:?}", vals_of(&mb)));
                        }
                        st.class("merged");
                        let mv = vals_of(&mb);
                        lives.push(Live { v: Box::new(KBoxed(mb)), m: mv, promised: 1 });
                    }
                    Err(p) => {
                        if adjacent {
                            st.fail("C16/merge", format!("{what}: merging adjacent parts panicked: {}", panic_message(&p)));
                        }
                        st.class("merge_rejected");
                    }
                }
                check_registry(st, &what);
            }
            continue;
        }
        if (meta == 4 || (st.mix == CMix::C16 && meta == 5)) && lives[which].v.kind() == KindId::Boxed && with_reg(|r| r.panic_at.is_none()) {
            let l = lives.remove(which);
            boxed_structural::<T>(st, &r, l, &mut lives);
            continue;
        }
        let kind = lives[which].v.kind();
        let len = lives[which].v.len();
        let op = decode_op(&r, len, kind, st.mix, h.plan.enabled, T::ZST);
        let was_part = lives[which].promised == 1;
        let part = step(st, &mut lives[which], &op, false);
        if was_part && (is_growth(&op) || matches!(op, Op::ShrinkToFit | Op::ShrinkTo(_))) && lives.len() >= 2 {
            grew_after_split = true;
        }
        if let Some(p) = part {
            let m: Vec<u32> = p.snapshot().iter().map(|(_, v)| *v).collect();
            lives[which].promised = 1;
            lives.push(Live { v: p, m, promised: 1 });
        }
        if st.stop {
            break;
        }
        // independence: every other vector still equals its model; buffers pairwise disjoint
        let mut ranges: Vec<(usize, usize, usize)> = Vec::new();
        for (i, l) in lives.iter().enumerate() {
            if i != which {
                let got: Vec<u32> = l.v.snapshot().iter().map(|(_, v)| *v).collect();
                if got != l.m {
                    st.fail("C16/sibling-changed", format!("after {op:?} on vector {which}: vector {i} ({:?}) changed {:?} -> {got:?}", l.v.kind(), l.m));
                    break;
                }
            }
            if !T::ZST && l.v.capacity() > 0 {
                ranges.push((l.v.ptr(), l.v.ptr() + l.v.capacity() * std::mem::size_of::<T>(), i));
            }
        }
        ranges.sort();
        for w in ranges.windows(2) {
            if w[0].1 > w[1].0 {
                st.fail("C16/parts-disjoint", format!("after {op:?}: buffers of vectors {} and {} overlap ({:#x}..{:#x} / {:#x}..)", w[0].2, w[1].2, w[0].0, w[0].1, w[1].0));
            }
        }
    }
    if grew_after_split {
        st.split_then_grow = true;
        st.class("split_then_grow");
    }
    let _ = info;
    // drop all owners (possibly with an injected panic in a Drop)
    let r = catch_unwind(AssertUnwindSafe(|| drop(lives)));
    if let Err(p) = r {
        if !p.is::<Marker>() {
            st.fail("panic/drop", format!("dropping the collections panicked: {}", panic_message(&p)));
        } else {
            // a panic out of Drop may leak the rest of that collection
            st.class("panic_in_final_drop");
            with_reg(|r| {
                for (i, d) in r.dropped.iter().enumerate() {
                    if *d == 0 {
                        st.leak_ok.insert(i as u32 + 1);
                    }
                }
            });
            if T::ZST {
                st.zst_leaked += 1 << 20;
            }
        }
    }
}

/// `map` / `map_in_place` to an element type of another size (named in C06, C08 and C16): the vector is consumed,
/// the result is inspected, pushed into and dropped inside the shim. Oracles: contents = the mapped model in order,
/// capacity as documented (`cap * size_of::<T>() / size_of::<U>()` in place, unlimited for zero-sized targets, never
/// below the length), the re-typed buffer stays inside the source buffer, the pushes that fit the reported capacity do
/// not move the buffer, no sibling changes, and (registry) every source and target value is dropped exactly once -
/// also when the closure panics part way through.
fn map_cross_step<'b, T: Elem + Clone + PartialEq>(st: &mut St, l: Live<'b, T>, sel: u8, fill: u8, lives: &[Live<'b, T>]) {
    let pid = if st.mix == CMix::C16 { "C16" } else { "C08" };
    let (kind, len0, cap0, ptr0) = (l.v.kind(), l.v.len(), l.v.capacity(), l.v.ptr());
    let tsz = std::mem::size_of::<T>();
    let what = format!("map {kind:?}<{}> len {len0} cap {cap0} @ {ptr0:#x} (target {} api {} fill {fill})", T::NAME, sel % 4, sel / 4 % 2);
    st.note(|| what.clone());
    let m = l.m.clone();
    let fired_before = with_reg(|r| r.fired.is_some());
    let ids0 = l.v.snapshot();
    let ids_before_op = with_reg(|r| r.dropped.len()) as u32;
    let res = catch_unwind(AssertUnwindSafe(|| l.v.map_cross(sel, fill)));
    let fired_now = !fired_before && with_reg(|r| r.fired.is_some());
    st.ops += 1;
    st.mutating += 1;
    st.mixh(0x3a9 ^ (sel as u64) << 12 ^ (len0 as u64) << 24 ^ (kind as u64) << 40);
    match res {
        Ok(None) => {}
        Ok(Some(o)) if o.alloc_err => st.class("map_alloc_err"),
        Ok(Some(o)) => {
            st.class("map_cross");
            let what = format!("{what} -> {} <{}> len {} cap {} @ {:#x}, {} pushed", o.api, o.u_name, o.len, o.cap, o.ptr, o.pushed);
            st.note(|| what.clone());
            let exp: Vec<u32> = m.iter().map(|x| if o.u_zst { 0 } else { x.wrapping_add(1) }).collect();
            if !fired_now {
                if o.mapped != exp {
                    st.fail(&format!("{pid}/map-contents"), format!("{what}: mapped contents {:?}, expected {exp:?}", o.mapped));
                }
                let mut exp_fill = exp.clone();
                exp_fill.extend(std::iter::repeat(if o.u_zst { 0 } else { 99 }).take(o.pushed));
                if o.after_fill != exp_fill {
                    st.fail(&format!("{pid}/map-contents"), format!("{what}: contents after the pushes {:?}, expected {exp_fill:?}", o.after_fill));
                }
                if o.cap < o.len || (o.u_zst && kind != KindId::Boxed && o.cap != usize::MAX) {
                    st.fail("C08/map-capacity", format!("{what}: capacity below the length, or limited for a zero-sized element type"));
                }
                if o.in_place && !o.u_zst && !T::ZST {
                    st.class("map_in_place_resized");
                    let want = if kind == KindId::Boxed { len0 } else { cap0 * tsz / o.u_size };
                    if o.cap != want && kind != KindId::Boxed {
                        st.fail("C08/map-capacity", format!("{what}: capacity {} after an in-place map, documented {want} (= {cap0} * {tsz} / {})", o.cap, o.u_size));
                    }
                    if cap0 > 0 && (o.ptr != ptr0 || o.cap.saturating_mul(o.u_size) > cap0 * tsz) {
                        st.fail("C16/parts-disjoint", format!("{what}: the re-typed buffer {:#x}..{:#x} is not inside the source buffer {ptr0:#x}..{:#x}", o.ptr, o.ptr + o.cap.saturating_mul(o.u_size), ptr0 + cap0 * tsz));
                        st.fail("C08/map-capacity", format!("{what}: the re-typed buffer is not inside the source buffer"));
                    }
                }
                if !o.u_zst && o.pushed > 0 && o.len + o.pushed <= o.cap && o.ptr_after_fill != o.ptr {
                    st.fail("C08/realloc-within-capacity", format!("{what}: the buffer moved {:#x} -> {:#x} although the pushes fit the reported capacity", o.ptr, o.ptr_after_fill));
                }
                if o.len + o.pushed > o.cap {
                    st.realloc_or_range = true;
                }
            } else {
                st.injected_seen = true;
            }
        }
        Err(p) => {
            if !(fired_now && p.is::<Marker>()) {
                st.fail("panic/op", format!("{what}: unexpected panic {}", panic_message(&p)));
            } else {
                st.injected_seen = true;
                st.class("panic_injected");
                st.class("panic_in_map");
                if len0 >= 2 {
                    st.class("panic_injected_len2");
                }
                if with_reg(|r| r.fired) == Some("drop") {
                    for (id, _) in &ids0 {
                        st.leak_ok.insert(*id);
                    }
                    let now = with_reg(|r| r.dropped.len()) as u32;
                    for id in ids_before_op + 1..=now {
                        st.leak_ok.insert(id);
                    }
                    st.zst_leaked += ids0.len() as i64 + 128;
                }
            }
        }
    }
    check_registry(st, &what);
    for (i, o) in lives.iter().enumerate() {
        let got: Vec<u32> = o.v.snapshot().iter().map(|(_, v)| *v).collect();
        if got != o.m {
            st.fail("C16/sibling-changed", format!("after {what}: vector {i} ({:?}) changed {:?} -> {got:?}", o.v.kind(), o.m));
            break;
        }
    }
}

/// C15 position rules for one exclusive-borrow collection / helper call.
/// `fin` = (address, bytes, element alignment) of the finalised result; `None` = dropped or unwound without finalising.
fn c15_positions(st: &mut St, info: &Info, before: &StatsSnap, after: &StatsSnap, what2: &str, fin: Option<(usize, usize, usize)>, zst: bool) {
    let cur_before = before.current.as_ref().map(|c| c.chunk_start);
    let idx_before = before.chunks.iter().position(|c| Some(c.chunk_start) == cur_before);
    let changed_chunk = after.current.as_ref().map(|c| c.chunk_start) != cur_before;
    if changed_chunk || after.chunks.len() > before.chunks.len() {
        st.outgrew = true;
        st.class("outgrew_chunk");
    }
    match fin {
        None => {
            // dropped / unwound without finalising: nothing moved
            if let Some(k) = idx_before {
                for (i, c) in before.chunks[..=k].iter().enumerate() {
                    if after.chunks.get(i).map(|x| x.pos) != Some(c.pos) {
                        st.fail("C15/position-moved-without-finalise", format!("{what2}: position of chunk {i} moved {:#x} -> {:x?}", c.pos, after.chunks.get(i).map(|x| x.pos)));
                    }
                }
            }
            if !changed_chunk && after.allocated != before.allocated {
                st.fail("C15/position-moved-without-finalise", format!("{what2}: allocated() {} -> {}", before.allocated, after.allocated));
            }
            if changed_chunk {
                // at most a later, still empty chunk became current
                if let (Some(c), Some(k)) = (after.current.as_ref(), idx_before) {
                    let idx_after = after.chunks.iter().position(|x| x.chunk_start == c.chunk_start).unwrap_or(0);
                    let empty = if info.up { c.content_start } else { c.content_end };
                    if idx_after <= k || c.pos != empty {
                        st.fail("C15/later-empty-chunk", format!("{what2}: current chunk changed to index {idx_after} (was {k}) with position {:#x} (empty {empty:#x})", c.pos));
                    }
                }
            }
        }
        Some((ptr, bytes, ealign)) => {
            if !zst {
                if let Some(c) = after.current.as_ref() {
                    let base = if !changed_chunk { before.current.as_ref().map(|c| c.pos).unwrap_or(0) } else if info.up { c.content_start } else { c.content_end };
                    let d = if info.up { c.pos.wrapping_sub(base) } else { base.wrapping_sub(c.pos) };
                    let max = bytes + (ealign - 1) + (info.min_align - 1);
                    if bytes == 0 {
                        if d > max {
                            st.fail("C15/advance-bound", format!("{what2}: empty result advanced the position by {d}"));
                        }
                    } else {
                        if d < bytes || d > max {
                            st.fail("C15/advance-bound", format!("{what2}: position advanced by {d}, contents need {bytes} (+ at most {} padding)", max - bytes));
                        }
                        if ptr < c.content_start || ptr + bytes > c.content_end {
                            st.fail("C15/result-in-current-chunk", format!("{what2}: result {ptr:#x}+{bytes} outside the current chunk"));
                        }
                    }
                    // earlier chunks untouched
                    if let Some(k) = idx_before {
                        let upto = if changed_chunk { k + 1 } else { k };
                        for (i, cb) in before.chunks[..upto.min(before.chunks.len())].iter().enumerate() {
                            if after.chunks.get(i).map(|x| x.pos) != Some(cb.pos) {
                                st.fail("C15/position-moved-without-finalise", format!("{what2}: position of earlier chunk {i} moved"));
                            }
                        }
                    }
                }
            }
            if ealign != info.min_align {
                st.class("align_differs_from_min");
            }
        }
    }
}

/// C15 for `alloc_try_with_mut` returning `Ok`: the `Result<T, E>` is built in place and everything of it
/// beyond the payload is given back. As documented (`allocated() == offset_of!(Result<T, E>, Ok.0) +
/// size_of::<T>()` when bumping upwards) the part of the `Result` that lies *before* the payload in bump
/// direction cannot be given back; the position must end exactly at the payload's far edge (aligned to the
/// minimum alignment), and the `Result` must have been placed tightly at the old position.
/// `f` = (payload address, payload size, payload offset in the Result, size and alignment of the Result)
fn c15_try_with(st: &mut St, info: &Info, before: &StatsSnap, after: &StatsSnap, what2: &str, f: (usize, usize, usize, usize, usize)) {
    let (addr, size, off, rsize, ralign) = f;
    let Some(c) = after.current.as_ref() else {
        st.fail("C15/result-in-current-chunk", format!("{what2}: no current chunk after a successful call"));
        return;
    };
    let cur_before = before.current.as_ref().map(|c| c.chunk_start);
    let changed_chunk = Some(c.chunk_start) != cur_before;
    if changed_chunk {
        st.outgrew = true;
        st.class("outgrew_chunk");
    }
    let ma = info.min_align;
    if addr < c.content_start || addr + size > c.content_end {
        st.fail("C15/result-in-current-chunk", format!("{what2}: value {addr:#x}+{size} outside the current chunk"));
        return;
    }
    let base = if !changed_chunk { before.current.as_ref().map(|c| c.pos).unwrap_or(0) } else if info.up { c.content_start } else { c.content_end };
    if info.up {
        let expect_pos = (addr + size + ma - 1) / ma * ma;
        let expect_res = (base + ralign - 1) / ralign * ralign;
        if c.pos != expect_pos || addr - off != expect_res {
            st.fail("C15/advance-bound", format!("{what2}: old position {base:#x}, value at {addr:#x} (offset {off} in a Result of {rsize}@{ralign}), new position {:#x}; expected the Result at {expect_res:#x} and the position right after the value at {expect_pos:#x}", c.pos));
        }
    } else {
        let expect_pos = addr / ma * ma;
        // downwards the start of every allocation is aligned to max(alignment, minimum alignment)
        let a = ralign.max(ma);
        let expect_res = (base - rsize) / a * a;
        if c.pos != expect_pos || addr - off != expect_res {
            st.fail("C15/advance-bound", format!("{what2}: old position {base:#x}, value at {addr:#x} (offset {off} in a Result of {rsize}@{ralign}), new position {:#x}; expected the Result at {expect_res:#x} and the position at the value's start {expect_pos:#x}", c.pos));
        }
    }
    // earlier chunks untouched
    if let Some(k) = before.chunks.iter().position(|x| Some(x.chunk_start) == cur_before) {
        let upto = if changed_chunk { k + 1 } else { k };
        for (i, cb) in before.chunks[..upto.min(before.chunks.len())].iter().enumerate() {
            if after.chunks.get(i).map(|x| x.pos) != Some(cb.pos) {
                st.fail("C15/position-moved-without-finalise", format!("{what2}: position of earlier chunk {i} moved"));
            }
        }
    }
}

/// C15: the `*_mut` allocation helpers (always finalise unless the iterator unwinds)
fn helper_round<'a, T: Elem + Clone + PartialEq + 'a, A: MutBumpAllocatorCoreScope<'a> + bump_scope::traits::MutBumpAllocatorTyped + ?Sized>(st: &mut St, arena: &mut A, info: Info, r0: &Rec) {
    use bump_scope::traits::MutBumpAllocatorTypedScope;
    let before = probe(&*arena, info.up);
    let sel = r0.b(4) % 8;
    let n = match r0.b(5) % 4 {
        0 => r0.b(6) as usize % 4,
        1 => r0.b(6) as usize % 40,
        _ => r0.u16(6) as usize % 900,
    };
    let hint = r0.b(8);
    let try_ = r0.b(9) & 1 == 1;
    st.ops += 1;
    st.mixh(0xC15 ^ (sel as u64) << 12 ^ (n as u64) << 16 ^ (hint as u64 % 4) << 40);
    let fired_before = with_reg(|r| r.fired.is_some());
    let (what, fin): (String, Option<(usize, usize, usize)>) = match sel {
        5 | 6 if r0.b(15) % 2 == 0 => {
            // plain small elements: sizes that are not multiples of the minimum alignment
            fn plain<'a, E: Copy + PartialEq + std::fmt::Debug + 'a, A: MutBumpAllocatorCoreScope<'a> + bump_scope::traits::MutBumpAllocatorTyped + ?Sized>(
                st: &mut St,
                arena: &mut A,
                n: usize,
                rev: bool,
                try_: bool,
                hint: u8,
                make: fn(u32) -> E,
            ) -> Option<(String, Option<(usize, usize, usize)>)> {
                use bump_scope::traits::MutBumpAllocatorTypedScope;
                let what = format!("{}alloc_iter_mut{}::<{}>({n} elements, size_hint form {})", if try_ { "try_" } else { "" }, if rev { "_rev" } else { "" }, std::any::type_name::<E>(), hint % 4);
                st.note(|| what.clone());
                let vals: Vec<E> = (0..n as u32).map(make).collect();
                struct It<E>(Vec<E>, usize, u8);
                impl<E: Copy> Iterator for It<E> {
                    type Item = E;
                    fn next(&mut self) -> Option<E> {
                        let v = *self.0.get(self.1)?;
                        self.1 += 1;
                        Some(v)
                    }
                    fn size_hint(&self) -> (usize, Option<usize>) {
                        let rem = self.0.len() - self.1;
                        match self.2 % 4 {
                            0 => (rem, Some(rem)),
                            1 => (0, None),
                            2 => (rem / 2, Some(rem * 2 + 1)),
                            _ => (rem + 2, None),
                        }
                    }
                }
                let it = It(vals.clone(), 0, hint);
                let b = match (rev, try_) {
                    (false, false) => Some(arena.alloc_iter_mut(it)),
                    (false, true) => arena.try_alloc_iter_mut(it).ok(),
                    (true, false) => Some(arena.alloc_iter_mut_rev(it)),
                    (true, true) => arena.try_alloc_iter_mut_rev(it).ok(),
                };
                let Some(b) = b else {
                    if !with_ctx(0, |c| c.exhausted) {
                        st.fail("C08/unexplained-error", format!("{what}: returned an allocation error without cause"));
                    }
                    return None;
                };
                let mut exp = vals;
                if rev {
                    exp.reverse();
                }
                if b[..] != exp[..] {
                    st.fail("C15/final-contents", format!("{what}: result {:?} != {exp:?}", &b[..]));
                }
                Some((what, Some((b.as_ptr() as usize, b.len() * std::mem::size_of::<E>(), std::mem::align_of::<E>()))))
            }
            let rev = sel == 6;
            let r = match r0.b(15) / 2 % 3 {
                0 => plain::<u8, A>(st, arena, n, rev, try_, hint, |i| i as u8),
                1 => plain::<u16, A>(st, arena, n, rev, try_, hint, |i| i as u16 ^ 0x5aa5),
                _ => plain::<[u8; 3], A>(st, arena, n, rev, try_, hint, |i| [i as u8, (i >> 8) as u8, 0x33]),
            };
            match r {
                Some(x) => x,
                None => return,
            }
        }
        5 | 6 => {
            let rev = sel == 6;
            let vals: Vec<u32> = (0..n as u32).map(|i| if T::ZST { 0 } else { i % 7 }).collect();
            let what = format!("{}alloc_iter_mut{}::<{}>({n} elements, size_hint form {})", if try_ { "try_" } else { "" }, if rev { "_rev" } else { "" }, T::NAME, hint % 4);
            st.note(|| what.clone());
            let res = catch_unwind(AssertUnwindSafe(|| {
                let it = hint_iter::<T>(&vals, hint);
                match (rev, try_) {
                    (false, false) => Some(arena.alloc_iter_mut(it)),
                    (false, true) => arena.try_alloc_iter_mut(it).ok(),
                    (true, false) => Some(arena.alloc_iter_mut_rev(it)),
                    (true, true) => arena.try_alloc_iter_mut_rev(it).ok(),
                }
            }));
            match res {
                Ok(Some(b)) => {
                    let got = vals_of(&b);
                    let mut exp = vals.clone();
                    if rev {
                        exp.reverse();
                    }
                    if got != exp {
                        st.fail("C15/final-contents", format!("{what}: result {got:?} != {exp:?}"));
                    }
                    let fin = if T::ZST { (b.as_ptr() as usize, 0, 1) } else { (b.as_ptr() as usize, got.len() * std::mem::size_of::<T>(), std::mem::align_of::<T>()) };
                    let r = catch_unwind(AssertUnwindSafe(|| drop(b)));
                    if let Err(p) = r {
                        if !p.is::<Marker>() {
                            st.fail("panic/drop", format!("{what}: dropping the result panicked: {}", panic_message(&p)));
                        }
                    }
                    (what, Some(fin))
                }
                Ok(None) => {
                    if !with_ctx(0, |c| c.exhausted) {
                        st.fail("C08/unexplained-error", format!("{what}: returned an allocation error without cause"));
                    }
                    return;
                }
                Err(p) => {
                    if !p.is::<Marker>() {
                        st.fail("panic/helper", format!("{what}: panicked: {}", panic_message(&p)));
                        return;
                    }
                    (what, None)
                }
            }
        }
        4 => {
            let piece = crate::strings::text(r0, 10, 1 + n % 3);
            let pushes = r0.b(11) as usize % 10;
            let cap = r0.b(12) as usize % 48;
            let how = r0.b(13) % 4;
            let rep = if r0.b(14) % 3 == 0 { 1 + n % 200 } else { 1 };
            let what = format!("MutBumpString with_capacity({cap}), {pushes} x push_str({piece:?} x {rep}), finalise {how}");
            st.note(|| what.clone());
            let chunk: String = piece.repeat(rep);
            let mut expect = String::new();
            let res = catch_unwind(AssertUnwindSafe(|| {
                let mut ms = bump_scope::MutBumpString::try_with_capacity_in(cap, &mut *arena).ok()?;
                for _ in 0..pushes {
                    if try_ {
                        ms.try_push_str(&chunk).ok()?;
                    } else {
                        ms.push_str(&chunk);
                    }
                    expect.push_str(&chunk);
                }
                Some(match how {
                    0 => {
                        drop(ms);
                        None
                    }
                    1 => {
                        let b = ms.into_boxed_str();
                        Some((b.as_ptr() as usize, b.as_bytes().to_vec()))
                    }
                    2 => {
                        let b = ms.into_str();
                        Some((b.as_ptr() as usize, b.as_bytes().to_vec()))
                    }
                    _ => {
                        let c = ms.into_cstr();
                        Some((c.as_ptr() as usize, c.to_bytes_with_nul().to_vec()))
                    }
                })
            }));
            match res {
                Ok(Some(None)) => (what, None),
                Ok(Some(Some((ptr, bytes)))) => {
                    let exp: Vec<u8> = if how == 3 {
                        let mut e: Vec<u8> = expect.bytes().take_while(|b| *b != 0).collect();
                        e.push(0);
                        e
                    } else {
                        expect.clone().into_bytes()
                    };
                    if bytes != exp {
                        st.fail("C15/final-contents", format!("{what}: result {:?} != {:?}", String::from_utf8_lossy(&bytes), String::from_utf8_lossy(&exp)));
                    }
                    (what, Some((ptr, bytes.len(), 1)))
                }
                Ok(None) => {
                    if !with_ctx(0, |c| c.exhausted) {
                        st.fail("C08/unexplained-error", format!("{what}: returned an allocation error without cause"));
                    }
                    return;
                }
                Err(p) => {
                    st.fail("panic/helper", format!("{what}: panicked: {}", panic_message(&p)));
                    return;
                }
            }
        }
        _ => {
            let piece = crate::strings::text(r0, 10, n % 3);
            let pad = n % 700;
            let what = format!("alloc_fmt_mut / alloc_cstr_fmt_mut ({piece:?}, width {pad})");
            st.note(|| what.clone());
            let mut expect = format!("{piece}{n}-{piece:>pad$}");
            let cstr = r0.b(10) & 1 == 1;
            // format_args! without arguments takes the `as_str()` shortcut (a plain alloc_str / alloc_cstr_from_str)
            let literal = r0.b(11) % 5 == 0;
            if literal {
                expect = "lit\0eral é".to_string();
            }
            let res = catch_unwind(AssertUnwindSafe(|| {
                if literal {
                    return if cstr {
                        let c = if try_ { arena.try_alloc_cstr_fmt_mut(format_args!("lit\0eral é")).ok()? } else { arena.alloc_cstr_fmt_mut(format_args!("lit\0eral é")) };
                        Some((c.as_ptr() as usize, c.to_bytes_with_nul().to_vec()))
                    } else {
                        let b = if try_ { arena.try_alloc_fmt_mut(format_args!("lit\0eral é")).ok()? } else { arena.alloc_fmt_mut(format_args!("lit\0eral é")) };
                        Some((b.as_ptr() as usize, b.as_bytes().to_vec()))
                    };
                }
                if cstr {
                    let c = if try_ { arena.try_alloc_cstr_fmt_mut(format_args!("{piece}{n}-{piece:>pad$}")).ok()? } else { arena.alloc_cstr_fmt_mut(format_args!("{piece}{n}-{piece:>pad$}")) };
                    Some((c.as_ptr() as usize, c.to_bytes_with_nul().to_vec()))
                } else {
                    let b = if try_ { arena.try_alloc_fmt_mut(format_args!("{piece}{n}-{piece:>pad$}")).ok()? } else { arena.alloc_fmt_mut(format_args!("{piece}{n}-{piece:>pad$}")) };
                    Some((b.as_ptr() as usize, b.as_bytes().to_vec()))
                }
            }));
            match res {
                Ok(Some((ptr, bytes))) => {
                    let exp: Vec<u8> = if cstr {
                        let mut e: Vec<u8> = expect.bytes().take_while(|b| *b != 0).collect();
                        e.push(0);
                        e
                    } else {
                        expect.clone().into_bytes()
                    };
                    if bytes != exp {
                        st.fail("C15/final-contents", format!("{what}: result {:?} != {:?}", String::from_utf8_lossy(&bytes), String::from_utf8_lossy(&exp)));
                    }
                    (what, Some((ptr, bytes.len(), 1)))
                }
                Ok(None) => {
                    if !with_ctx(0, |c| c.exhausted) {
                        st.fail("C08/unexplained-error", format!("{what}: returned an allocation error without cause"));
                    }
                    return;
                }
                Err(p) => {
                    st.fail("panic/helper", format!("{what}: panicked: {}", panic_message(&p)));
                    return;
                }
            }
        }
    };
    let unwound = !fired_before && with_reg(|r| r.fired.is_some());
    let after = probe(&*arena, info.up);
    let what2 = format!("{what} (unwound={unwound})");
    st.class("mut_helper");
    c15_positions(st, &info, &before, &after, &what2, fin, T::ZST && matches!(sel, 5 | 6) && r0.b(15) % 2 == 1);
    if unwound {
        st.class("unwound_while_filling");
    }
    check_registry(st, &what2);
}

/// C15 on concrete `BumpScope` types (10 settings: minimum alignment x direction), helper rounds only
fn concrete_c15(st: &mut St, h: &Hdr) {
    use bump_scope::Bump;
    use bump_scope::settings::BumpSettings;
    use bsv_core::talloc::{Handle, Z};
    st.class("concrete_scope");
    macro_rules! go {
        ($MA:literal, $UP:literal) => {{
            let Ok(mut b) = Bump::<Z<0>, BumpSettings<$MA, $UP>>::try_with_size_in(if h.ctor % 2 == 0 { 512 } else { 2048 }, <Z<0> as Handle>::new()) else { return };
            let hl = talloc::header_layout::<Z<0>>();
            let info = Info { up: $UP, min_align: $MA, ga: true, de: true, sh: true, mcs: 512, shape: "Z", header_size: hl.size(), header_align: hl.align(), full: false };
            st.note(|| format!("concrete Bump<Z, BumpSettings<{}, {}>>", $MA, $UP));
            let sc = b.as_mut_scope();
            if h.prealloc > 0 {
                let _ = sc.try_alloc_slice_fill_with::<u8>(h.prealloc, || 0xEE);
            }
            let mut round = 0;
            while st.pos < st.recs.len() && !st.stop && round < 6 {
                round += 1;
                let r0 = Rec(st.recs[st.pos]);
                st.pos += 1;
                if r0.b(4) % 8 == 7 && r0.b(13) % 2 == 0 {
                    // alloc_try_with_mut: Ok keeps exactly the value, Err keeps nothing
                    let before = probe(&*sc, info.up);
                    let ok = r0.b(14) % 3 != 0;
                    let try_ = r0.b(9) & 1 == 1;
                    let var = r0.b(15) % 6;
                    st.ops += 1;
                    st.mixh(0x7717 ^ (var as u64) << 16 ^ (ok as u64) << 24);
                    macro_rules! tw {
                        ($T:ty, $E:ty, $tv:expr, $ev:expr) => {{
                            let f = || -> Result<$T, $E> { if ok { Ok($tv) } else { Err($ev) } };
                            let r = if try_ { sc.try_alloc_try_with_mut(f).ok() } else { Some(sc.alloc_try_with_mut(f)) };
                            match r {
                                Some(Ok(b)) => {
                                    if *b != $tv {
                                        st.fail("C15/final-contents", format!("alloc_try_with_mut::<{}, {}>: wrong value", stringify!($T), stringify!($E)));
                                    }
                                    // where the payload sits inside Result<T, E> (measured, offset_of! on enums is unstable)
                                    let probe_val: Result<$T, $E> = Ok($tv);
                                    let off = match &probe_val {
                                        Ok(x) => x as *const $T as usize - &probe_val as *const Result<$T, $E> as usize,
                                        Err(_) => 0,
                                    };
                                    Some(Some((&*b as *const $T as usize, std::mem::size_of::<$T>(), off, std::mem::size_of::<Result<$T, $E>>(), std::mem::align_of::<Result<$T, $E>>())))
                                }
                                Some(Err(_)) => Some(None),
                                None => None,
                            }
                        }};
                    }
                    let fin = match var {
                        0 => tw!(u64, u32, 0x1122_3344_5566_7788u64, 7u32),
                        1 => tw!([u32; 3], [u32; 40], [1u32, 2, 3], [9u32; 40]),
                        2 => tw!(u8, u64, 0x5au8, 1u64),
                        3 => tw!([u8; 16], u8, [0x6bu8; 16], 2u8),
                        4 => tw!([u16; 4], u32, [7u16, 8, 9, 10], 2u32),
                        _ => tw!([u8; 5], u8, [1u8, 2, 3, 4, 5], 2u8),
                    };
                    let what2 = format!("alloc_try_with_mut variant {var} (closure returns {})", if ok { "Ok" } else { "Err" });
                    st.note(|| what2.clone());
                    if let Some(fin) = fin {
                        let after = probe(&*sc, info.up);
                        st.class("try_with_mut");
                        match fin {
                            None => c15_positions(st, &info, &before, &after, &what2, None, false),
                            Some(f) => c15_try_with(st, &info, &before, &after, &what2, f),
                        }
                    }
                    continue;
                }
                helper_round::<Tr, _>(st, sc, info, &r0);
            }
        }};
    }
    match (h.ma, h.congruence & 1 == 0) {
        (1, true) => go!(1, true),
        (1, false) => go!(1, false),
        (2, true) => go!(2, true),
        (2, false) => go!(2, false),
        (4, true) => go!(4, true),
        (4, false) => go!(4, false),
        (8, true) => go!(8, true),
        (8, false) => go!(8, false),
        (_, true) => go!(16, true),
        (_, false) => go!(16, false),
    }
}

fn run_mut<'a, T: Elem + Clone + PartialEq>(st: &mut St, h: &Hdr, arena: &mut (dyn MutBumpAllocatorCoreScope<'a> + 'a), info: Info) {
    // one exclusive-borrow vector at a time: create, fill, finalise or drop; repeat
    let mut round = 0;
    while st.pos < st.recs.len() && !st.stop && round < 4 {
        round += 1;
        let r0 = Rec(st.recs[st.pos]);
        st.pos += 1;
        if st.mix == CMix::C15 && r0.b(4) % 8 >= 4 && !h.plan.enabled {
            helper_round::<T, _>(st, arena, info, &r0);
            continue;
        }
        let rev = (h.first_kind as usize + round) % 2 == 1;
        let before = probe(&*arena, info.up);
        let n_ops = 1 + r0.b(5) as usize % 14;
        let finalise = r0.b(6) % 4 != 0;
        let cap = r0.b(7) as usize % 20;
        let what = format!("{} <{}> with_capacity({cap}) ops {n_ops} finalise {finalise}", if rev { "MutBumpVecRev" } else { "MutBumpVec" }, T::NAME);
        st.note(|| what.clone());
        let esz = std::mem::size_of::<T>();
        let ealign = std::mem::align_of::<T>();
        let mut result: Option<(usize, Vec<u32>)> = None; // (ptr, contents) of the finalised slice
        let mut model_final: Vec<u32> = Vec::new();
        let mut unwound = false;
        {
            let a = &mut *arena;
            let v: Option<Box<dyn VK<'_, T> + '_>> = if rev {
                MutBumpVecRev::try_with_capacity_in(cap, a).ok().map(|v| Box::new(KMutRev(v)) as Box<dyn VK<'_, T>>)
            } else {
                MutBumpVec::try_with_capacity_in(cap, a).ok().map(|v| Box::new(KMut(v)) as Box<dyn VK<'_, T>>)
            };
            let Some(v) = v else { continue };
            let mut l = Live { v, m: vec![], promised: 0 };
            for _ in 0..n_ops {
                if st.pos >= st.recs.len() || st.stop {
                    break;
                }
                let r = Rec(st.recs[st.pos]);
                st.pos += 1;
                // C15 fills a lot so that the chunk is outgrown
                let op = if st.mix == CMix::C15 && r.b(0) % 3 == 0 {
                    Op::ExtendIter((0..(r.u16(2) % 700) as u32).map(|i| if T::ZST { 0 } else { i % 7 }).collect(), r.b(6))
                } else {
                    decode_op(&r, l.v.len(), l.v.kind(), st.mix, h.plan.enabled, T::ZST)
                };
                let fired_before = with_reg(|r| r.fired.is_some());
                let _ = step(st, &mut l, &op, rev);
                if !fired_before && with_reg(|r| r.fired.is_some()) {
                    unwound = true;
                }
            }
            model_final = l.m.clone();
            if r0.b(8) % 5 == 0 && !st.stop && with_reg(|r| r.panic_at.is_none()) {
                // consumed by value through into_iter, partially, from both ends; the rest is dropped by the iterator
                let (f, b) = (r0.b(9) as usize % 4, r0.b(10) as usize % 3);
                st.note(|| format!("into_iter(): {f} from the front, {b} from the back, rest dropped"));
                let (_, yielded) = l.v.consume(Consume::IntoIter(f, b));
                let mut expm = model_final.clone();
                let mut expy = vec![];
                for _ in 0..f {
                    if !expm.is_empty() {
                        expy.push(expm.remove(0));
                    }
                }
                for _ in 0..b {
                    if let Some(x) = expm.pop() {
                        expy.push(x);
                    }
                }
                if yielded != expy {
                    st.fail("C08/returned-value", format!("{what}: into_iter yielded {yielded:?}, expected {expy:?}"));
                }
                st.partial_drop = true;
                st.class("partial_iterator");
                check_registry(st, &what);
            } else if r0.b(8) % 5 == 1 && !rev && !st.stop {
                // consumed by a size-changing map_in_place; the result is pushed into and dropped (nothing finalised)
                map_cross_step::<T>(st, l, r0.b(9), r0.b(10), &[]);
            } else if finalise && !st.stop {
                let (rest, _) = l.v.consume(Consume::IntoBoxedSlice);
                if let Some(b) = rest {
                    let got: Vec<u32> = b.snapshot().iter().map(|(_, v)| *v).collect();
                    result = Some((b.ptr(), got));
                    // keep the box alive until the end of this round: drop it here (values dropped once)
                    drop(b);
                }
            } else {
                drop(l);
            }
        }
        if st.stop {
            break;
        }
        // C15: positions
        let after = probe(&*arena, info.up);
        let what2 = format!("{what} (unwound={unwound})");
        let fin = match &result {
            None => None,
            Some((ptr, got)) => {
                if *got != model_final {
                    st.fail("C15/final-contents", format!("{what2}: finalised contents {got:?} != {model_final:?}"));
                }
                if T::ZST { Some((*ptr, 0, 1)) } else { Some((*ptr, got.len() * esz, ealign)) }
            }
        };
        c15_positions(st, &info, &before, &after, &what2, fin, T::ZST);
        if unwound {
            st.class("unwound_while_filling");
        }
    }
}

/// collection buffers are blocks in the sense of C01 / C02: overlapping buffers of live parts violate C01,
/// a sibling whose contents change through an operation on another part violates C02
pub fn coll_owns(prop: &str, oracle: &str) -> bool {
    oracle.starts_with(prop)
        || oracle.starts_with("panic")
        || oracle.starts_with("crash")
        || (prop == "C01" && oracle == "C16/parts-disjoint")
        || (prop == "C02" && oracle == "C16/sibling-changed")
}

impl Engine for CollEngine {
    fn owns(&self, prop: &str, oracle: &str) -> bool {
        coll_owns(prop, oracle)
    }
    fn name(&self) -> &'static str {
        "B/collections"
    }
    fn max_records(&self) -> usize {
        40
    }
    fn rule(&self) -> String {
        let common = "generator: header (arena cell out of 140 settings/shape cells reached through a trait-object allocator, element type Tr(16 B)/Tr32(align 32)/TrZ(zero-sized), first vector kind, panic-injection index, fault plan, grant policy, pre-allocation that misaligns the position) + up to 40 records decoded into operations on up to 4 simultaneously live vectors (BumpBox<[T]>, FixedBumpVec, BumpVec; or one MutBumpVec / MutBumpVecRev at a time) with arguments covering every index 0..=len+1 and all range forms incl. out of range and start > end; oracle: std Vec executing the same operation (documented mirrored model for the reverse vector), per-value drop registry. ";
        let nt = match self.mix {
            CMix::C06 => "non-trivial: the injected panic fired inside an operation on a collection with >= 2 elements, or a draining/splicing/extracting/into_iter iterator was dropped partially consumed",
            CMix::C08 => "non-trivial: >= 6 mutating operations on >= 2 vector kinds with a reallocation or a range operation on >= 3 elements",
            CMix::C15 => "non-trivial: filling outgrew the chunk, or element alignment != minimum alignment, or unwound while filling",
            CMix::C16 => "non-trivial: a part was split off and a part was subsequently grown/shrunk while its sibling was alive",
            CMix::C07 => "non-trivial: a fault fired inside a collection operation and >= 2 more operations followed",
        };
        format!("{common}{nt}; distinct by hash of executed operations")
    }
    fn required_classes(&self) -> Vec<(&'static str, f64)> {
        match self.mix {
            CMix::C06 => vec![("panic_injected", 0.15), ("partial_iterator", 0.1), ("elem_zst", 0.05)],
            CMix::C08 => vec![("reallocated", 0.2), ("expected_panic", 0.1), ("elem_zst", 0.05), ("kind_rev", 0.05)],
            CMix::C15 => vec![("outgrew_chunk", 0.1), ("unwound_while_filling", 0.02)],
            CMix::C16 => vec![("split_off", 0.3), ("split_then_grow", 0.05)],
            CMix::C07 => vec![("fault_fired", 0.1)],
        }
    }
    fn assumptions(&self) -> Vec<String> {
        vec!["std::vec::Vec is the reference model".into(), "exactly one injected panic per case (never while unwinding)".into()]
    }
    fn run_case(&self, bytes: &[u8], want_desc: bool) -> CaseResult {
        let (hb, rest) = bytes.split_at(bytes.len().min(16));
        let h = decode_hdr(hb, self.mix);
        let recs: Vec<&[u8]> = rest.chunks(16).collect();
        let cs = cells();
        talloc::with_ctx(0, |c| c.reset(h.policy, h.congruence, h.plan));
        reg_reset(h.panic_at, h.inject_drop);
        let mut st = St {
            mix: self.mix,
            recs,
            pos: 0,
            fails: vec![],
            classes: BTreeSet::new(),
            log: if want_desc { Some(String::new()) } else { None },
            hash: 0xcbf29ce484222325,
            ops: 0,
            nops: 0,
            stop: false,
            leak_ok: BTreeSet::new(),
            zst_leaked: 0,
            injected_seen: false,
            mutating: 0,
            kinds_used: BTreeSet::new(),
            realloc_or_range: false,
            partial_drop: false,
            split_then_grow: false,
            outgrew: false,
            fault_seen: false,
            ops_after_fault: 0,
        };
        let cell = &cs[h.cell];
        st.note(|| format!("cell [{}] min_align {} elem {} policy {:?} panic_at {:?} (in drop: {}) plan {:?}", cell.name, h.ma, h.elem % 5, h.policy, h.panic_at, h.inject_drop, h.plan));
        let elem = h.elem % 5;
        let concrete = self.mix == CMix::C15 && h.first_kind % 4 == 3 && !h.plan.enabled;
        let r = catch_unwind(AssertUnwindSafe(|| {
            if concrete {
                // the typed fast paths of the concrete scope types (the trait-object route above goes
                // through the layout-based implementation instead)
                return concrete_c15(&mut st, &h);
            }
            (cell.d)(h.ma, h.ctor, &mut |arena, info| match elem {
                0 | 1 | 2 => run_t::<Tr>(&mut st, &h, arena, info),
                3 => run_t::<Tr32>(&mut st, &h, arena, info),
                _ => run_t::<TrZ>(&mut st, &h, arena, info),
            });
        }));
        if let Err(p) = r {
            // the injected panic fired outside an operation (creation, finalising, drop of an owner):
            // unwinding dropped all owners; the accounting below still applies
            if p.is::<Marker>() {
                st.class("panic_outside_op");
                if with_reg(|r| r.fired) == Some("drop") {
                    with_reg(|r| {
                        for (i, d) in r.dropped.iter().enumerate() {
                            if *d == 0 {
                                st.leak_ok.insert(i as u32 + 1);
                            }
                        }
                    });
                    st.zst_leaked += 1 << 20;
                }
            } else {
                st.fail("panic/engine", format!("unexpected panic: {}", panic_message(&p)));
            }
        }
        // final drop accounting: everything created was dropped exactly once
        let what = "end of case";
        check_registry(&mut st, what);
        let (leaks, zlive, fired): (Vec<u32>, i64, Option<&'static str>) = with_reg(|r| {
            (r.dropped.iter().enumerate().filter(|(_, d)| **d == 0).map(|(i, _)| i as u32 + 1).collect(), r.zst_live, r.fired)
        });
        let real_leaks: Vec<u32> = leaks.iter().copied().filter(|id| !st.leak_ok.contains(id)).collect();
        if !real_leaks.is_empty() && st.fails.is_empty() {
            st.fail("C06/lost-value", format!("{} value(s) were never dropped (ids {:?}, injected panic: {fired:?})", real_leaks.len(), &real_leaks[..real_leaks.len().min(8)]));
        }
        if (zlive < 0 || zlive > st.zst_leaked) && st.fails.is_empty() {
            st.fail("C06/zst-balance", format!("zero-sized elements: constructions - drops = {zlive}, explicit leaks allow {}", st.zst_leaked));
        }
        // the arena's own ledger (chunks released etc.)
        let (live, errs) = with_ctx(0, |c| (c.live_grants().count(), std::mem::take(&mut c.errors)));
        for e in errs {
            let id = e.split(':').next().unwrap_or("C05/ledger").to_string();
            st.fail(&id, e.clone());
        }
        if live != 0 {
            st.fail("C05/leak", format!("{live} grant(s) outstanding after the arena was dropped"));
        }
        match elem {
            3 => st.class("elem_align32"),
            4 => st.class("elem_zst"),
            _ => st.class("elem_tr"),
        }
        if st.kinds_used.contains(&(KindId::MutVecRev as u8)) {
            st.class("kind_rev");
        }
        if st.kinds_used.contains(&(KindId::MutVec as u8)) {
            st.class("kind_mut");
        }
        if st.kinds_used.contains(&(KindId::Fixed as u8)) {
            st.class("kind_fixed");
        }
        if st.kinds_used.contains(&(KindId::Boxed as u8)) {
            st.class("kind_boxed");
        }
        if st.kinds_used.contains(&(KindId::Vec as u8)) {
            st.class("kind_vec");
        }
        let nontrivial = match self.mix {
            CMix::C06 => st.classes.contains("panic_injected_len2") || st.partial_drop,
            CMix::C08 => st.mutating >= 6 && st.realloc_or_range,
            CMix::C15 => st.outgrew || st.classes.contains("align_differs_from_min") || st.classes.contains("unwound_while_filling"),
            CMix::C16 => st.split_then_grow,
            CMix::C07 => st.fault_seen && st.ops_after_fault >= 2,
        };
        CaseResult {
            report: CaseReport {
                nontrivial,
                hash: st.hash ^ ((h.cell as u64) << 50) ^ ((elem as u64) << 46),
                classes: st.classes.iter().copied().collect(),
                ops: st.ops,
                nops: st.nops,
                desc: st.log.take(),
                counters: vec![("operations", st.ops)],
            },
            failures: st.fails,
        }
    }
}
