//! Engine B shims: an object-safe view of the five vector kinds (DESIGN.md appendix B).

#![allow(clippy::type_complexity)]

use std::ops::Bound;

use bump_scope::traits::{BumpAllocatorTypedScope, MutBumpAllocatorTypedScope};
use bump_scope::{BumpBox, BumpVec, FixedBumpVec, MutBumpVec, MutBumpVecRev};

use bsv_core::elem::{Elem, tick};

#[derive(Clone, Copy, Debug, PartialEq, Eq)]
pub enum KindId {
    Boxed,
    Fixed,
    Vec,
    MutVec,
    MutVecRev,
}

#[derive(Clone, Copy, Debug, PartialEq, Eq)]
pub enum DrainEnd {
    Drop,
    Forget,
    KeepRest,
}

#[derive(Clone, Copy, Debug, PartialEq, Eq)]
pub enum Src {
    Array4,
    StdVec,
    BoxSlice,
    VecIntoIter,
    VecDrain,
    MutRefVec,
}

pub type R2 = (Bound<usize>, Bound<usize>);

#[derive(Clone, Debug, PartialEq, Eq)]
pub enum Op {
    Push(u32, bool, u8),
    Insert(usize, u32, bool),
    Remove(usize),
    SwapRemove(usize),
    Pop,
    PopIf(u32),
    Truncate(usize),
    Clear,
    Resize(usize, u32, bool),
    ResizeWith(usize, u32, bool),
    ExtendClone(Vec<u32>, bool),
    ExtendWithin(R2, bool),
    ExtendIter(Vec<u32>, u8),
    Append(Vec<u32>, Src, bool),
    Drain(R2, usize, usize, DrainEnd),
    ExtractIf(u32, usize),
    Retain(u32),
    Dedup,
    DedupByKey(u32),
    DedupBy(u32),
    SplitOff(R2),
    Reserve(usize, bool),
    ReserveExact(usize, bool),
    ShrinkToFit,
    ShrinkTo(usize),
    Splice(R2, Vec<u32>, usize),
    IterRev,
}

pub enum Res<'a, T: Elem> {
    Unit,
    Val(Option<u32>),
    Vals(Vec<u32>),
    AllocErr,
    Unsupported,
    Part(Box<dyn VK<'a, T> + 'a>),
}

impl<T: Elem> std::fmt::Debug for Res<'_, T> {
    fn fmt(&self, f: &mut std::fmt::Formatter<'_>) -> std::fmt::Result {
        match self {
            Res::Unit => write!(f, "()"),
            Res::Val(v) => write!(f, "{v:?}"),
            Res::Vals(v) => write!(f, "{v:?}"),
            Res::AllocErr => write!(f, "AllocError"),
            Res::Unsupported => write!(f, "<unsupported>"),
            Res::Part(p) => write!(f, "part(len {})", p.len()),
        }
    }
}

#[derive(Clone, Copy, Debug, PartialEq, Eq)]
pub enum Consume {
    Drop,
    IntoBoxedSlice,
    IntoIter(usize, usize),
    MapInPlace,
    IntoFixed,
}

pub trait VK<'b, T: Elem> {
    fn kind(&self) -> KindId;
    fn len(&self) -> usize;
    fn capacity(&self) -> usize;
    fn ptr(&self) -> usize;
    fn snapshot(&self) -> Vec<(u32, u32)>;
    fn apply(&mut self, op: &Op) -> Res<'b, T>;
    /// consuming conversions; returns the remaining owner (if any) and yielded values
    fn consume(self: Box<Self>, how: Consume) -> (Option<Box<dyn VK<'b, T> + 'b>>, Vec<u32>);
    /// (count, allocated) of the arena as seen through the collection's allocator, if it has one
    fn arena_probe(&self) -> Option<(usize, usize)> {
        None
    }
    /// the owned slice itself, for the consuming split / merge operations of `BumpBox<[T]>`
    fn take_boxed(self: Box<Self>) -> Option<BumpBox<'b, [T]>> {
        None
    }
    /// `map` / `map_in_place` to another element type (`sel % 4`: `T::MapA/B/C/Big`; `sel / 4 % 2`: `map_in_place`
    /// or `try_map` where both exist), then `fill` pushes into the result, which is dropped before returning
    fn map_cross(self: Box<Self>, _sel: u8, _fill: u8) -> Option<MapOut> {
        None
    }
}

/// what a size-changing map produced (the result itself is gone when this is returned)
#[derive(Debug, Default)]
pub struct MapOut {
    pub api: &'static str,
    pub u_name: &'static str,
    pub u_zst: bool,
    pub u_size: usize,
    pub in_place: bool,
    pub alloc_err: bool,
    pub mapped: Vec<u32>,
    pub len: usize,
    pub ptr: usize,
    pub cap: usize,
    pub pushed: usize,
    pub after_fill: Vec<u32>,
    pub ptr_after_fill: usize,
}

fn mapf<T: Elem, U: Elem>(e: T) -> U {
    tick("map");
    U::make(e.val().wrapping_add(1))
}

fn map_out<U: Elem>(api: &'static str, in_place: bool, s: &[U], cap: usize) -> MapOut {
    MapOut {
        api,
        u_name: U::NAME,
        u_zst: U::ZST,
        u_size: std::mem::size_of::<U>(),
        in_place,
        alloc_err: false,
        mapped: s.iter().map(|e| e.val()).collect(),
        len: s.len(),
        ptr: s.as_ptr() as usize,
        cap,
        ..MapOut::default()
    }
}

/// number of pushes after a map: odd `fill` = up to the reported capacity (at most 64) plus `extra`, even = a few
fn fill_count(fill: u8, len: usize, cap: usize, extra: usize) -> usize {
    if fill % 2 == 1 { cap.saturating_sub(len).min(64) + extra } else { fill as usize / 2 % 4 }
}

fn out_boxed<U: Elem>(api: &'static str, b: BumpBox<'_, [U]>) -> MapOut {
    let mut o = map_out(api, true, &b, b.len());
    o.after_fill = o.mapped.clone();
    o.ptr_after_fill = o.ptr;
    o
}

fn out_fixed<U: Elem>(api: &'static str, mut v: FixedBumpVec<'_, U>, fill: u8) -> MapOut {
    let mut o = map_out(api, true, &v, v.capacity());
    for _ in 0..fill_count(fill, o.len, o.cap, 1) {
        if v.try_push(U::make(99)).is_err() {
            break;
        }
        o.pushed += 1;
    }
    o.after_fill = v.iter().map(|e| e.val()).collect();
    o.ptr_after_fill = v.as_ptr() as usize;
    o
}

fn out_vec<U: Elem, A: bump_scope::traits::BumpAllocatorTyped>(api: &'static str, in_place: bool, mut v: BumpVec<U, A>, fill: u8) -> MapOut {
    let mut o = map_out(api, in_place, &v, v.capacity());
    for _ in 0..fill_count(fill, o.len, o.cap, 1) {
        if v.try_push(U::make(99)).is_err() {
            break;
        }
        o.pushed += 1;
    }
    o.after_fill = v.iter().map(|e| e.val()).collect();
    o.ptr_after_fill = v.as_ptr() as usize;
    if fill / 8 % 3 == 0 {
        // give the (possibly re-typed) buffer back through the shrinking path as well
        v.shrink_to_fit();
    }
    o
}

fn out_mut<U: Elem, A: bump_scope::traits::MutBumpAllocatorTyped>(api: &'static str, mut v: MutBumpVec<U, A>, fill: u8) -> MapOut {
    let mut o = map_out(api, true, &v, v.capacity());
    for _ in 0..fill_count(fill, o.len, o.cap, 1) {
        if v.try_push(U::make(99)).is_err() {
            break;
        }
        o.pushed += 1;
    }
    o.after_fill = v.iter().map(|e| e.val()).collect();
    o.ptr_after_fill = v.as_ptr() as usize;
    o
}

/// `same_bucket(a, b)` of the generated `dedup_by` calls (`a` = the candidate, `b` = the last retained element):
/// an equivalence, a symmetric but non-transitive relation, and an asymmetric one - the latter two tell whether
/// the implementation compares with the last *retained* element and in std's argument order
pub fn dedup_rel(a: u32, b: u32, m: u32) -> bool {
    match m {
        1 => a % 2 == b % 2,
        2 => a.abs_diff(b) <= 1,
        _ => a <= b,
    }
}

fn rng(r: &R2) -> (Bound<usize>, Bound<usize>) {
    *r
}

struct HintIter<T: Elem> {
    vals: Vec<u32>,
    i: usize,
    hint: u8,
    huge: bool,
    _m: std::marker::PhantomData<T>,
}
impl<T: Elem> Iterator for HintIter<T> {
    type Item = T;
    fn next(&mut self) -> Option<T> {
        tick("iter-next");
        let v = *self.vals.get(self.i)?;
        self.i += 1;
        Some(T::make(v))
    }
    fn size_hint(&self) -> (usize, Option<usize>) {
        let rem = self.vals.len() - self.i;
        if self.huge {
            // a lower bound no buffer can hold: reserving for it is a capacity overflow
            return (usize::MAX / 8, None);
        }
        match self.hint % 4 {
            0 => (rem, Some(rem)),
            1 => (0, None),
            2 => (rem / 2, Some(rem * 2 + 1)),
            _ => (rem + 2, None),
        }
    }
}

/// size_hint with an unrepresentable lower bound (used by `splice` only)
pub fn hint_iter_huge<T: Elem>(vals: &[u32]) -> impl Iterator<Item = T> {
    HintIter::<T> { vals: vals.to_vec(), i: 0, hint: 0, huge: true, _m: std::marker::PhantomData }
}

pub fn hint_iter<T: Elem>(vals: &[u32], hint: u8) -> impl Iterator<Item = T> {
    HintIter::<T> { vals: vals.to_vec(), i: 0, hint, huge: false, _m: std::marker::PhantomData }
}

macro_rules! sel {
    (yes, $a:expr, $b:expr) => {
        $a
    };
    (no, $a:expr, $b:expr) => {
        $b
    };
}

fn snap<T: Elem>(s: &[T]) -> Vec<(u32, u32)> {
    s.iter().map(|e| (e.id(), e.val())).collect()
}

/// shared implementation of the slice-level operations (all kinds deref to / offer these)
macro_rules! common_ops {
    ($self:ident, $op:ident, $T:ident, retain: $retain:tt) => {
        match $op {
            Op::Remove(i) => Some(Res::Val(Some($self.remove(*i).val()))),
            Op::SwapRemove(i) => Some(Res::Val(Some($self.swap_remove(*i).val()))),
            Op::Pop => Some(Res::Val($self.pop().map(|e| e.val()))),
            Op::Truncate(n) => {
                $self.truncate(*n);
                Some(Res::Unit)
            }
            Op::Clear => {
                $self.clear();
                Some(Res::Unit)
            }
            Op::IterRev => Some(Res::Vals($self.iter().rev().map(|e| e.val()).collect())),
            Op::Retain(m) => sel!(
                $retain,
                {
                    let m = *m;
                    $self.retain(|e| {
                        tick("retain");
                        e.val() % m != 0
                    });
                    Some(Res::Unit)
                },
                Some(Res::Unsupported)
            ),
            Op::Dedup => sel!(
                $retain,
                {
                    $self.dedup();
                    Some(Res::Unit)
                },
                Some(Res::Unsupported)
            ),
            Op::DedupByKey(m) => sel!(
                $retain,
                {
                    let m = *m;
                    $self.dedup_by_key(|e| {
                        tick("dedup-key");
                        e.val() % m
                    });
                    Some(Res::Unit)
                },
                Some(Res::Unsupported)
            ),
            Op::DedupBy(m) => sel!(
                $retain,
                {
                    let m = *m;
                    $self.dedup_by(|a, b| {
                        tick("dedup-by");
                        dedup_rel(a.val(), b.val(), m)
                    });
                    Some(Res::Unit)
                },
                Some(Res::Unsupported)
            ),
            Op::Drain(r, front, back, end) => sel!(
                $retain,
                {
                    let mut out = Vec::new();
                    let mut d = $self.drain(rng(r));
                    for _ in 0..*front {
                        match d.next() {
                            Some(e) => out.push(e.val()),
                            None => break,
                        }
                    }
                    for _ in 0..*back {
                        match d.next_back() {
                            Some(e) => out.push(e.val()),
                            None => break,
                        }
                    }
                    match end {
                        DrainEnd::Drop => drop(d),
                        DrainEnd::Forget => std::mem::forget(d),
                        DrainEnd::KeepRest => d.keep_rest(),
                    }
                    Some(Res::Vals(out))
                },
                Some(Res::Unsupported)
            ),
            Op::ExtractIf(m, take) => sel!(
                $retain,
                {
                    let m = *m;
                    let out: Vec<u32> = $self
                        .extract_if(|e| {
                            tick("extract-if");
                            e.val() % m == 0
                        })
                        .take(*take)
                        .map(|e| e.val())
                        .collect();
                    Some(Res::Vals(out))
                },
                Some(Res::Unsupported)
            ),
            _ => None,
        }
    };
}

/// growth operations shared by Fixed / Vec / MutVec / MutVecRev
macro_rules! growth_ops {
    ($self:ident, $op:ident, $T:ident, exact: $exact:tt) => {
        match $op {
            Op::Push(v, try_, variant) => {
                let v = *v;
                Some(match (*try_, *variant % 4) {
                    (true, 0) => match $self.try_push($T::make(v)) {
                        Ok(()) => Res::Unit,
                        Err(_) => Res::AllocErr,
                    },
                    (true, 1) => match $self.try_push_with(|| {
                        tick("push-with");
                        $T::make(v)
                    }) {
                        Ok(()) => Res::Unit,
                        Err(_) => Res::AllocErr,
                    },
                    (true, 2) => match $self.try_push_mut($T::make(v)) {
                        Ok(_) => Res::Unit,
                        Err(_) => Res::AllocErr,
                    },
                    (true, _) => match $self.try_push_mut_with(|| {
                        tick("push-with");
                        $T::make(v)
                    }) {
                        Ok(_) => Res::Unit,
                        Err(_) => Res::AllocErr,
                    },
                    (false, 0) => {
                        $self.push($T::make(v));
                        Res::Unit
                    }
                    (false, 1) => {
                        $self.push_with(|| {
                            tick("push-with");
                            $T::make(v)
                        });
                        Res::Unit
                    }
                    (false, 2) => {
                        let _ = $self.push_mut($T::make(v));
                        Res::Unit
                    }
                    (false, _) => {
                        let _ = $self.push_mut_with(|| {
                            tick("push-with");
                            $T::make(v)
                        });
                        Res::Unit
                    }
                })
            }
            Op::Insert(i, v, try_) => Some(if *try_ {
                match $self.try_insert(*i, $T::make(*v)) {
                    Ok(()) => Res::Unit,
                    Err(_) => Res::AllocErr,
                }
            } else {
                $self.insert(*i, $T::make(*v));
                Res::Unit
            }),
            Op::PopIf(m) => {
                let m = *m;
                Some(Res::Val(
                    $self
                        .pop_if(|e| {
                            tick("pop-if");
                            e.val() % m == 0
                        })
                        .map(|e| e.val()),
                ))
            }
            Op::Resize(n, v, try_) => Some(if *try_ {
                match $self.try_resize(*n, $T::make(*v)) {
                    Ok(()) => Res::Unit,
                    Err(_) => Res::AllocErr,
                }
            } else {
                $self.resize(*n, $T::make(*v));
                Res::Unit
            }),
            Op::ResizeWith(n, v, try_) => {
                let mut k = *v;
                let f = || {
                    tick("resize-with");
                    k = k.wrapping_add(1);
                    $T::make(k)
                };
                Some(if *try_ {
                    match $self.try_resize_with(*n, f) {
                        Ok(()) => Res::Unit,
                        Err(_) => Res::AllocErr,
                    }
                } else {
                    $self.resize_with(*n, f);
                    Res::Unit
                })
            }
            Op::ExtendClone(vs, try_) => {
                let src: Vec<$T> = vs.iter().map(|v| $T::make(*v)).collect();
                Some(if *try_ {
                    match $self.try_extend_from_slice_clone(&src) {
                        Ok(()) => Res::Unit,
                        Err(_) => Res::AllocErr,
                    }
                } else {
                    $self.extend_from_slice_clone(&src);
                    Res::Unit
                })
            }
            Op::ExtendWithin(r, try_) => Some(if *try_ {
                match $self.try_extend_from_within_clone(rng(r)) {
                    Ok(()) => Res::Unit,
                    Err(_) => Res::AllocErr,
                }
            } else {
                $self.extend_from_within_clone(rng(r));
                Res::Unit
            }),
            Op::ExtendIter(vs, hint) => {
                $self.extend(hint_iter::<$T>(vs, *hint));
                Some(Res::Unit)
            }
            Op::Append(vs, src, try_) => {
                macro_rules! ap {
                    ($e:expr) => {
                        if *try_ {
                            match $self.try_append($e) {
                                Ok(()) => Res::Unit,
                                Err(_) => Res::AllocErr,
                            }
                        } else {
                            $self.append($e);
                            Res::Unit
                        }
                    };
                }
                let mut v: Vec<$T> = vs.iter().map(|v| $T::make(*v)).collect();
                Some(match src {
                    Src::Array4 => {
                        let mut it = v.into_iter();
                        let a: [$T; 4] = std::array::from_fn(|_| it.next().unwrap_or_else(|| $T::make(0)));
                        ap!(a)
                    }
                    Src::StdVec => ap!(v),
                    Src::BoxSlice => ap!(v.into_boxed_slice()),
                    Src::VecIntoIter => {
                        let mut it = v.into_iter();
                        let _ = it.next();
                        ap!(it)
                    }
                    Src::VecDrain => {
                        let n = v.len();
                        let r = ap!(v.drain(n / 3..));
                        drop(v);
                        r
                    }
                    Src::MutRefVec => {
                        let r = ap!(&mut v);
                        drop(v);
                        r
                    }
                })
            }
            Op::Reserve(n, try_) => Some(if *try_ {
                match $self.try_reserve(*n) {
                    Ok(()) => Res::Unit,
                    Err(_) => Res::AllocErr,
                }
            } else {
                $self.reserve(*n);
                Res::Unit
            }),
            Op::ReserveExact(n, try_) => sel!(
                $exact,
                Some(if *try_ {
                    match $self.try_reserve_exact(*n) {
                        Ok(()) => Res::Unit,
                        Err(_) => Res::AllocErr,
                    }
                } else {
                    $self.reserve_exact(*n);
                    Res::Unit
                }),
                Some(Res::Unsupported)
            ),
            _ => None,
        }
    };
}

// ---------------------------------------------------------------------------------------------
// BumpBox<[T]>

pub struct KBoxed<'a, T: Elem>(pub BumpBox<'a, [T]>);

impl<'a: 'b, 'b, T: Elem + Clone + PartialEq> VK<'b, T> for KBoxed<'a, T> {
    fn kind(&self) -> KindId {
        KindId::Boxed
    }
    fn take_boxed(self: Box<Self>) -> Option<BumpBox<'b, [T]>> {
        Some(self.0)
    }
    fn map_cross(self: Box<Self>, sel: u8, _fill: u8) -> Option<MapOut> {
        Some(match sel % 4 {
            0 | 3 => out_boxed("BumpBox::map_in_place", self.0.map_in_place(mapf::<T, T::MapA>)),
            1 => out_boxed("BumpBox::map_in_place", self.0.map_in_place(mapf::<T, T::MapB>)),
            _ => out_boxed("BumpBox::map_in_place", self.0.map_in_place(mapf::<T, T::MapC>)),
        })
    }
    fn len(&self) -> usize {
        self.0.len()
    }
    fn capacity(&self) -> usize {
        self.0.len()
    }
    fn ptr(&self) -> usize {
        self.0.as_ptr() as usize
    }
    fn snapshot(&self) -> Vec<(u32, u32)> {
        snap(&self.0)
    }
    fn apply(&mut self, op: &Op) -> Res<'b, T> {
        let s = &mut self.0;
        if let Some(r) = common_ops!(s, op, T, retain: yes) {
            return r;
        }
        match op {
            Op::SplitOff(r) => Res::Part(Box::new(KBoxed(s.split_off(rng(r))))),
            _ => Res::Unsupported,
        }
    }
    fn consume(self: Box<Self>, how: Consume) -> (Option<Box<dyn VK<'b, T> + 'b>>, Vec<u32>) {
        match how {
            Consume::Drop => (None, vec![]),
            Consume::IntoIter(f, b) => {
                let mut it = self.0.into_iter();
                let mut out = vec![];
                for _ in 0..f {
                    if let Some(e) = it.next() {
                        out.push(e.val());
                    }
                }
                for _ in 0..b {
                    if let Some(e) = it.next_back() {
                        out.push(e.val());
                    }
                }
                (None, out)
            }
            Consume::MapInPlace => {
                let b = self.0.map_in_place(|e| {
                    tick("map");
                    T::make(e.val().wrapping_add(1))
                });
                (Some(Box::new(KBoxed(b))), vec![])
            }
            Consume::IntoFixed => (Some(Box::new(KFixed(FixedBumpVec::from_init(self.0)))), vec![]),
            Consume::IntoBoxedSlice => (Some(self), vec![]),
        }
    }
}

// ---------------------------------------------------------------------------------------------
// FixedBumpVec<T>

pub struct KFixed<'a, T: Elem>(pub FixedBumpVec<'a, T>);

impl<'a: 'b, 'b, T: Elem + Clone + PartialEq> VK<'b, T> for KFixed<'a, T> {
    fn kind(&self) -> KindId {
        KindId::Fixed
    }
    fn map_cross(self: Box<Self>, sel: u8, fill: u8) -> Option<MapOut> {
        Some(match sel % 4 {
            0 | 3 => out_fixed("FixedBumpVec::map_in_place", self.0.map_in_place(mapf::<T, T::MapA>), fill),
            1 => out_fixed("FixedBumpVec::map_in_place", self.0.map_in_place(mapf::<T, T::MapB>), fill),
            _ => out_fixed("FixedBumpVec::map_in_place", self.0.map_in_place(mapf::<T, T::MapC>), fill),
        })
    }
    fn len(&self) -> usize {
        self.0.len()
    }
    fn capacity(&self) -> usize {
        self.0.capacity()
    }
    fn ptr(&self) -> usize {
        self.0.as_ptr() as usize
    }
    fn snapshot(&self) -> Vec<(u32, u32)> {
        snap(&self.0)
    }
    fn apply(&mut self, op: &Op) -> Res<'b, T> {
        let s = &mut self.0;
        if let Some(r) = common_ops!(s, op, T, retain: yes) {
            return r;
        }
        if let Some(r) = growth_ops!(s, op, T, exact: no) {
            return r;
        }
        match op {
            Op::SplitOff(r) => Res::Part(Box::new(KFixed(s.split_off(rng(r))))),
            _ => Res::Unsupported,
        }
    }
    fn consume(self: Box<Self>, how: Consume) -> (Option<Box<dyn VK<'b, T> + 'b>>, Vec<u32>) {
        match how {
            Consume::Drop => (None, vec![]),
            Consume::IntoBoxedSlice => (Some(Box::new(KBoxed(self.0.into_boxed_slice()))), vec![]),
            Consume::IntoIter(f, b) => {
                let mut it = self.0.into_iter();
                let mut out = vec![];
                for _ in 0..f {
                    if let Some(e) = it.next() {
                        out.push(e.val());
                    }
                }
                for _ in 0..b {
                    if let Some(e) = it.next_back() {
                        out.push(e.val());
                    }
                }
                (None, out)
            }
            Consume::MapInPlace => {
                let b = self.0.map_in_place(|e| {
                    tick("map");
                    T::make(e.val().wrapping_add(1))
                });
                (Some(Box::new(KFixed(b))), vec![])
            }
            Consume::IntoFixed => (Some(self), vec![]),
        }
    }
}

// ---------------------------------------------------------------------------------------------
// BumpVec<T, A>

pub struct KVec<T: Elem, A: bump_scope::traits::BumpAllocatorTyped>(pub BumpVec<T, A>);

impl<'a: 'b, 'b, T: Elem + Clone + PartialEq, A: BumpAllocatorTypedScope<'a> + Copy + 'b> VK<'b, T> for KVec<T, A> {
    fn kind(&self) -> KindId {
        KindId::Vec
    }
    fn map_cross(self: Box<Self>, sel: u8, fill: u8) -> Option<MapOut> {
        fn fits<T, U>() -> bool {
            use std::mem::{align_of, size_of};
            size_of::<T>() != 0 && size_of::<U>() != 0 && align_of::<T>() >= align_of::<U>() && size_of::<T>() >= size_of::<U>()
        }
        fn err() -> MapOut {
            MapOut { api: "BumpVec::try_map", alloc_err: true, ..MapOut::default() }
        }
        const MIP: &str = "BumpVec::map_in_place";
        const MAP: &str = "BumpVec::try_map";
        Some(match (sel / 4 % 2, sel % 4) {
            (0, 0) | (0, 3) => out_vec(MIP, true, self.0.map_in_place(mapf::<T, T::MapA>), fill),
            (0, 1) => out_vec(MIP, true, self.0.map_in_place(mapf::<T, T::MapB>), fill),
            (0, _) => out_vec(MIP, true, self.0.map_in_place(mapf::<T, T::MapC>), fill),
            (_, 0) => self.0.try_map(mapf::<T, T::MapA>).map(|v| out_vec(MAP, fits::<T, T::MapA>(), v, fill)).unwrap_or_else(|_| err()),
            (_, 1) => self.0.try_map(mapf::<T, T::MapB>).map(|v| out_vec(MAP, fits::<T, T::MapB>(), v, fill)).unwrap_or_else(|_| err()),
            (_, 2) => self.0.try_map(mapf::<T, T::MapC>).map(|v| out_vec(MAP, fits::<T, T::MapC>(), v, fill)).unwrap_or_else(|_| err()),
            (_, _) => self.0.try_map(mapf::<T, T::MapBig>).map(|v| out_vec(MAP, fits::<T, T::MapBig>(), v, fill)).unwrap_or_else(|_| err()),
        })
    }
    fn len(&self) -> usize {
        self.0.len()
    }
    fn capacity(&self) -> usize {
        self.0.capacity()
    }
    fn ptr(&self) -> usize {
        self.0.as_ptr() as usize
    }
    fn snapshot(&self) -> Vec<(u32, u32)> {
        snap(&self.0)
    }
    fn apply(&mut self, op: &Op) -> Res<'b, T> {
        let s = &mut self.0;
        if let Some(r) = common_ops!(s, op, T, retain: yes) {
            return r;
        }
        if let Some(r) = growth_ops!(s, op, T, exact: yes) {
            return r;
        }
        match op {
            Op::SplitOff(r) => Res::Part(Box::new(KVec(s.split_off(rng(r))))),
            Op::ShrinkToFit => {
                s.shrink_to_fit();
                Res::Unit
            }
            Op::ShrinkTo(n) => {
                s.shrink_to(*n);
                Res::Unit
            }
            Op::Splice(r, vs, consume) => {
                let out: Vec<u32> = if *consume / 5 >= 4 {
                    s.splice(rng(r), hint_iter_huge::<T>(vs)).take(*consume % 5).map(|e| e.val()).collect()
                } else {
                    s.splice(rng(r), hint_iter::<T>(vs, (*consume / 5) as u8)).take(*consume % 5).map(|e| e.val()).collect()
                };
                Res::Vals(out)
            }
            _ => Res::Unsupported,
        }
    }
    fn consume(self: Box<Self>, how: Consume) -> (Option<Box<dyn VK<'b, T> + 'b>>, Vec<u32>) {
        match how {
            Consume::Drop => (None, vec![]),
            Consume::IntoBoxedSlice => (Some(Box::new(KBoxed(self.0.into_boxed_slice()))), vec![]),
            Consume::IntoFixed => (Some(Box::new(KFixed(self.0.into_fixed_vec()))), vec![]),
            Consume::IntoIter(f, b) => {
                let mut it = self.0.into_iter();
                let mut out = vec![];
                for _ in 0..f {
                    if let Some(e) = it.next() {
                        out.push(e.val());
                    }
                }
                for _ in 0..b {
                    if let Some(e) = it.next_back() {
                        out.push(e.val());
                    }
                }
                (None, out)
            }
            Consume::MapInPlace => {
                let b = self.0.map_in_place(|e| {
                    tick("map");
                    T::make(e.val().wrapping_add(1))
                });
                (Some(Box::new(KVec(b))), vec![])
            }
        }
    }
}

// ---------------------------------------------------------------------------------------------
// MutBumpVec<T, A> / MutBumpVecRev<T, A>

pub struct KMut<T: Elem, A>(pub MutBumpVec<T, A>);

impl<'a: 'b, 'b, T: Elem + Clone + PartialEq, A: MutBumpAllocatorTypedScope<'a> + 'b> VK<'b, T> for KMut<T, A> {
    fn kind(&self) -> KindId {
        KindId::MutVec
    }
    fn map_cross(self: Box<Self>, sel: u8, fill: u8) -> Option<MapOut> {
        Some(match sel % 4 {
            0 | 3 => out_mut("MutBumpVec::map_in_place", self.0.map_in_place(mapf::<T, T::MapA>), fill),
            1 => out_mut("MutBumpVec::map_in_place", self.0.map_in_place(mapf::<T, T::MapB>), fill),
            _ => out_mut("MutBumpVec::map_in_place", self.0.map_in_place(mapf::<T, T::MapC>), fill),
        })
    }
    fn len(&self) -> usize {
        self.0.len()
    }
    fn capacity(&self) -> usize {
        self.0.capacity()
    }
    fn ptr(&self) -> usize {
        self.0.as_ptr() as usize
    }
    fn snapshot(&self) -> Vec<(u32, u32)> {
        snap(&self.0)
    }
    fn apply(&mut self, op: &Op) -> Res<'b, T> {
        let s = &mut self.0;
        if let Some(r) = common_ops!(s, op, T, retain: yes) {
            return r;
        }
        if let Some(r) = growth_ops!(s, op, T, exact: yes) {
            return r;
        }
        Res::Unsupported
    }
    fn consume(self: Box<Self>, how: Consume) -> (Option<Box<dyn VK<'b, T> + 'b>>, Vec<u32>) {
        match how {
            Consume::Drop => (None, vec![]),
            Consume::IntoIter(f, b) => {
                let mut it = self.0.into_iter();
                let mut out = vec![];
                for _ in 0..f {
                    if let Some(e) = it.next() {
                        out.push(e.val());
                    }
                }
                for _ in 0..b {
                    if let Some(e) = it.next_back() {
                        out.push(e.val());
                    }
                }
                (None, out)
            }
            _ => (Some(Box::new(KBoxed(self.0.into_boxed_slice()))), vec![]),
        }
    }
}

pub struct KMutRev<T: Elem, A>(pub MutBumpVecRev<T, A>);

impl<'a: 'b, 'b, T: Elem + Clone + PartialEq, A: MutBumpAllocatorTypedScope<'a> + 'b> VK<'b, T> for KMutRev<T, A> {
    fn kind(&self) -> KindId {
        KindId::MutVecRev
    }
    fn len(&self) -> usize {
        self.0.len()
    }
    fn capacity(&self) -> usize {
        self.0.capacity()
    }
    fn ptr(&self) -> usize {
        self.0.as_ptr() as usize
    }
    fn snapshot(&self) -> Vec<(u32, u32)> {
        snap(&self.0)
    }
    fn apply(&mut self, op: &Op) -> Res<'b, T> {
        let s = &mut self.0;
        if let Some(r) = common_ops!(s, op, T, retain: no) {
            return r;
        }
        if let Some(r) = growth_ops!(s, op, T, exact: yes) {
            return r;
        }
        Res::Unsupported
    }
    fn consume(self: Box<Self>, how: Consume) -> (Option<Box<dyn VK<'b, T> + 'b>>, Vec<u32>) {
        match how {
            Consume::Drop => (None, vec![]),
            Consume::IntoIter(f, b) => {
                let mut it = self.0.into_iter();
                let mut out = vec![];
                for _ in 0..f {
                    if let Some(e) = it.next() {
                        out.push(e.val());
                    }
                }
                for _ in 0..b {
                    if let Some(e) = it.next_back() {
                        out.push(e.val());
                    }
                }
                (None, out)
            }
            _ => (Some(Box::new(KBoxed(self.0.into_boxed_slice()))), vec![]),
        }
    }
}
