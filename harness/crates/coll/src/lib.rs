//! bsv-coll: engines B (collections) and C (strings).
pub mod coll;
pub mod coll_api;
pub mod plain;
pub mod strings;
pub mod strings_down8;
pub mod strings_dyn;
pub mod strings_up4;
