//! bsv-coll: engines B (collections) and C (strings).
pub mod coll;
pub mod coll_api;
pub mod plain;
pub mod strings;
