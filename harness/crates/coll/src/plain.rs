//! Engine B2 (DESIGN.md section 9): the `Copy`-element code paths of the vector types that the
//! tracked elements of engine B cannot reach - `extend_from_slice_copy`, `extend_from_within_copy`,
//! `std::io::Write`, the constructor family (`from_owned_slice_in`, `from_iter_in`,
//! `from_iter_exact_in`, `from_array_in`), `into_flattened`, `into_iter` - on `u8` elements (sizes
//! that are not multiples of any alignment). Oracle: std `Vec<u8>` (mirrored model for the
//! reverse vector).

use std::collections::BTreeSet;
use std::io::Write;
use std::ops::Bound;
use std::panic::{AssertUnwindSafe, catch_unwind};

use bump_scope::traits::{BumpAllocatorTypedScope, MutBumpAllocatorCoreScope};
use bump_scope::{BumpVec, FixedBumpVec, MutBumpVec, MutBumpVecRev};

use bsv_cells::cells;
use bsv_core::common::{Info, Rec, pick};
use bsv_core::runner::{CaseReport, CaseResult, Engine, Failure, panic_message};
use bsv_core::talloc::{self, FaultPlan, GrantPolicy, with_ctx};

type Sh<'b, 'a> = &'b (dyn MutBumpAllocatorCoreScope<'a> + 'a);
type R2 = (Bound<usize>, Bound<usize>);

pub struct PlainEngine;

struct St<'c> {
    recs: Vec<&'c [u8]>,
    pos: usize,
    fails: Vec<Failure>,
    classes: BTreeSet<&'static str>,
    log: Option<String>,
    hash: u64,
    ops: u64,
    nops: u64,
    copy_ops: u32,
    grew: bool,
    rebuilt: bool,
    stop: bool,
}

impl<'c> St<'c> {
    fn next(&mut self) -> Option<Rec<'c>> {
        if self.pos >= self.recs.len() || self.stop {
            return None;
        }
        let r = Rec(self.recs[self.pos]);
        self.pos += 1;
        Some(r)
    }
}

impl St<'_> {
    fn fail(&mut self, oracle: &str, msg: String) {
        if let Some(l) = self.log.as_mut() {
            l.push_str(&format!("  !! {oracle}: {msg}\n"));
        }
        if !self.fails.iter().any(|f| f.oracle == oracle) {
            self.fails.push(Failure { oracle: oracle.to_string(), msg });
        }
        if bsv_core::runner::stops_case(bsv_core::runner::default_owns(bsv_core::runner::current_prop(), oracle)) {
            self.stop = true;
        }
    }
    fn note(&mut self, s: impl FnOnce() -> String) {
        if let Some(l) = self.log.as_mut() {
            l.push_str(&s());
            l.push('\n');
        }
    }
    fn class(&mut self, c: &'static str) {
        self.classes.insert(c);
    }
}

#[derive(Clone, Debug)]
enum POp {
    ExtCopy(Vec<u8>, bool),
    WithinCopy(R2, bool),
    Write(Vec<u8>),
    WriteAll(Vec<u8>),
    WriteVectored(Vec<Vec<u8>>),
    Push(u8),
    Pop,
    Truncate(usize),
    Reserve(usize),
}

#[derive(Debug, PartialEq)]
enum PRes {
    Unit,
    Val(Option<u8>),
    Wrote(usize),
    Err,
    Unsupported,
}

fn bound(sel: u8, raw: usize, len: usize) -> Bound<usize> {
    let i = pick(raw, len + 3);
    // (rarely the largest index: `..=usize::MAX` / `(Excluded(usize::MAX), ..)` overflow when resolved)
    let i = if sel >= 250 { usize::MAX } else { i };
    match sel % 4 {
        0 => Bound::Unbounded,
        1 | 2 => Bound::Included(i),
        _ => Bound::Excluded(i),
    }
}

fn resolve(r: &R2, len: usize) -> Option<(usize, usize)> {
    let s = match r.0 {
        Bound::Unbounded => 0,
        Bound::Included(i) => i,
        Bound::Excluded(i) => i.checked_add(1)?,
    };
    let e = match r.1 {
        Bound::Unbounded => len,
        Bound::Included(i) => i.checked_add(1)?,
        Bound::Excluded(i) => i,
    };
    if s > e || e > len { None } else { Some((s, e)) }
}

fn bytes(r: &Rec, n: usize) -> Vec<u8> {
    (0..n).map(|i| r.b(8 + i % 8).wrapping_add((i / 8) as u8).wrapping_mul(31)).collect()
}

fn decode(r: &Rec, len: usize) -> POp {
    let n = match r.b(1) % 4 {
        0 => r.b(2) as usize % 4,
        1 | 2 => r.b(2) as usize % 40,
        _ => r.u16(2) as usize % 700,
    };
    let try_ = r.b(4) & 1 == 1;
    match r.b(0) % 16 {
        0..=3 => POp::ExtCopy(bytes(r, n), try_),
        4..=6 => POp::WithinCopy((bound(r.b(5), r.u16(6) as usize, len), bound(r.b(5) / 4, r.u16(8) as usize, len)), try_),
        7 => POp::Write(bytes(r, n)),
        8 => POp::WriteAll(bytes(r, n)),
        9 => POp::WriteVectored((0..r.b(5) as usize % 4).map(|i| bytes(r, (n + i * 7) % 60)).collect()),
        10 | 11 => POp::Push(r.b(2)),
        12 => POp::Pop,
        13 => POp::Truncate(pick(r.u16(2), len + 2)),
        _ => POp::Reserve(n),
    }
}

/// reference semantics; `None` = std panics (range) ; fixed-capacity overflow is decided by the caller
fn model(m: &mut Vec<u8>, op: &POp, rev: bool) -> Option<PRes> {
    let prepend = |m: &mut Vec<u8>, s: &[u8]| {
        let mut n = s.to_vec();
        n.extend_from_slice(m);
        *m = n;
    };
    Some(match op {
        POp::ExtCopy(s, _) => {
            if rev { prepend(m, s) } else { m.extend_from_slice(s) }
            PRes::Unit
        }
        POp::WithinCopy(r, _) => {
            let (s, e) = resolve(r, m.len())?;
            if rev {
                let part = m[s..e].to_vec();
                prepend(m, &part);
            } else {
                m.extend_from_within(s..e);
            }
            PRes::Unit
        }
        POp::Write(s) => {
            m.extend_from_slice(s);
            PRes::Wrote(s.len())
        }
        POp::WriteAll(s) => {
            m.extend_from_slice(s);
            PRes::Unit
        }
        POp::WriteVectored(v) => {
            let mut n = 0;
            for s in v {
                m.extend_from_slice(s);
                n += s.len();
            }
            PRes::Wrote(n)
        }
        POp::Push(v) => {
            if rev { m.insert(0, *v) } else { m.push(*v) }
            PRes::Unit
        }
        POp::Pop => {
            if rev {
                if m.is_empty() { PRes::Val(None) } else { PRes::Val(Some(m.remove(0))) }
            } else {
                PRes::Val(m.pop())
            }
        }
        POp::Truncate(n) => {
            if rev {
                while m.len() > *n {
                    m.remove(0);
                }
            } else {
                m.truncate(*n);
            }
            PRes::Unit
        }
        POp::Reserve(_) => PRes::Unit,
    })
}

macro_rules! io_ops {
    (yes, $v:ident, $op:ident) => {
        match $op {
            POp::Write(s) => Some(match $v.write(s) {
                Ok(n) => PRes::Wrote(n),
                Err(_) => PRes::Err,
            }),
            POp::WriteAll(s) => Some(match $v.write_all(s) {
                Ok(()) => PRes::Unit,
                Err(_) => PRes::Err,
            }),
            POp::WriteVectored(bufs) => {
                let io: Vec<std::io::IoSlice<'_>> = bufs.iter().map(|b| std::io::IoSlice::new(b)).collect();
                Some(match $v.write_vectored(&io) {
                    Ok(n) => PRes::Wrote(n),
                    Err(_) => PRes::Err,
                })
            }
            _ => None,
        }
    };
    (no, $v:ident, $op:ident) => {
        match $op {
            POp::Write(_) | POp::WriteAll(_) | POp::WriteVectored(_) => Some(PRes::Unsupported),
            _ => None,
        }
    };
}

macro_rules! apply {
    ($v:ident, $op:ident, io: $io:tt) => {{
        if let Some(r) = io_ops!($io, $v, $op) {
            r
        } else {
            match $op {
                POp::ExtCopy(s, true) => match $v.try_extend_from_slice_copy(s) {
                    Ok(()) => PRes::Unit,
                    Err(_) => PRes::Err,
                },
                POp::ExtCopy(s, false) => {
                    $v.extend_from_slice_copy(s);
                    PRes::Unit
                }
                POp::WithinCopy(r, true) => match $v.try_extend_from_within_copy(*r) {
                    Ok(()) => PRes::Unit,
                    Err(_) => PRes::Err,
                },
                POp::WithinCopy(r, false) => {
                    $v.extend_from_within_copy(*r);
                    PRes::Unit
                }
                POp::Push(x) => match $v.try_push(*x) {
                    Ok(()) => PRes::Unit,
                    Err(_) => PRes::Err,
                },
                POp::Pop => PRes::Val($v.pop()),
                POp::Truncate(n) => {
                    $v.truncate(*n);
                    PRes::Unit
                }
                POp::Reserve(n) => match $v.try_reserve(*n) {
                    Ok(()) => PRes::Unit,
                    Err(_) => PRes::Err,
                },
                _ => PRes::Unsupported,
            }
        }
    }};
}

fn op_hash(op: &POp) -> u64 {
    let f = |tag: u64, a: u64, b: u64| tag ^ a.wrapping_mul(0x9E3779B97F4A7C15) ^ b.rotate_left(29);
    let bh = |v: &[u8]| bsv_core::runner::fnv(v);
    let bd = |b: &Bound<usize>| match b {
        Bound::Unbounded => 1u64,
        Bound::Included(i) => (*i as u64).wrapping_mul(4).wrapping_add(2),
        Bound::Excluded(i) => (*i as u64).wrapping_mul(4).wrapping_add(3),
    };
    match op {
        POp::ExtCopy(v, t) => f(1, bh(v), *t as u64),
        POp::WithinCopy(r, t) => f(2, bd(&r.0) ^ bd(&r.1) << 20, *t as u64),
        POp::Write(v) => f(3, bh(v), 0),
        POp::WriteAll(v) => f(4, bh(v), 0),
        POp::WriteVectored(v) => f(5, v.iter().fold(0, |a, b| a ^ bh(b)), v.len() as u64),
        POp::Push(x) => f(6, *x as u64, 0),
        POp::Pop => 7,
        POp::Truncate(n) => f(8, *n as u64, 0),
        POp::Reserve(n) => f(9, *n as u64, 0),
    }
}

/// judge one operation: `real` ran on the library vector (`after`, `cap` read back), the model copy decides
#[allow(clippy::too_many_arguments)]
fn judge(st: &mut St, what_fn: &dyn Fn() -> String, op: &POp, real: std::thread::Result<PRes>, m: &mut Vec<u8>, after: &[u8], cap0: usize, cap1: usize, fixed: bool, rev: bool) {
    if matches!(real, Ok(PRes::Unsupported)) {
        st.nops += 1;
        return;
    }
    st.ops += 1;
    st.hash ^= op_hash(op);
    st.hash = st.hash.wrapping_mul(0x100000001b3);
    if matches!(op, POp::ExtCopy(..) | POp::WithinCopy(..) | POp::Write(_) | POp::WriteAll(_) | POp::WriteVectored(_)) {
        st.copy_ops += 1;
    }
    let mut m2 = m.clone();
    let exp = model(&mut m2, op, rev);
    let over = fixed && m2.len() > cap0 || fixed && matches!(op, POp::Reserve(n) if m.len() + n > cap0);
    let is_try = matches!(op, POp::ExtCopy(_, true) | POp::WithinCopy(_, true) | POp::Push(_) | POp::Reserve(_) | POp::Write(_) | POp::WriteAll(_) | POp::WriteVectored(_));
    match (real, exp) {
        (Err(p), exp) => {
            let msg = panic_message(&p);
            if exp.is_none() || (over && !is_try) {
                st.class("expected_panic");
                if after != &m[..] {
                    st.fail("C08/state-after-arg-panic", format!("{}:", what_fn()) + &format!(" panicked ({msg}) and changed the contents {m:?} -> {after:?}"));
                }
            } else {
                st.fail("C08/panic-verdict", format!("{}:", what_fn()) + &format!(" panicked ({msg}) where std does not"));
            }
        }
        (Ok(_), None) => st.fail("C08/panic-verdict", format!("{}:", what_fn()) + &format!(" returned normally where std panics (range out of bounds)")),
        (Ok(PRes::Err), Some(_)) => {
            if !(over || with_ctx(0, |c| c.exhausted)) {
                st.fail("C08/unexplained-error", format!("{}:", what_fn()) + &format!(" returned an allocation error without cause"));
            }
            st.class("fixed_full");
            // a vectored write is a sequence of writes; everything else is all-or-nothing
            let partial_ok = matches!(op, POp::WriteVectored(_)) && after.starts_with(m) && m2.starts_with(after);
            if after != &m[..] && !partial_ok {
                st.fail("C07/collection-state-after-failure", format!("{}:", what_fn()) + &format!(" failed operation changed the contents {m:?} -> {after:?}"));
            }
            *m = after.to_vec();
        }
        (Ok(r), Some(e)) => {
            if over {
                st.fail("C08/fixed-never-grows", format!("{}:", what_fn()) + &format!(" a fixed vector of capacity {cap0} accepted {} elements", m2.len()));
            } else if r != e {
                st.fail("C08/returned-value", format!("{}:", what_fn()) + &format!(" returned {r:?}, std gives {e:?}"));
            } else if after != &m2[..] {
                st.fail("C08/contents", format!("{}:", what_fn()) + &format!(" contents {after:?}, std Vec {m2:?}"));
            }
            *m = m2;
        }
    }
    if cap1 < after.len() {
        st.fail("C08/len-le-capacity", format!("{}:", what_fn()) + &format!(" len {} > capacity {cap1}", after.len()));
    }
    if fixed && cap1 != cap0 {
        st.fail("C08/fixed-never-grows", format!("{}:", what_fn()) + &format!(" capacity of a fixed vector changed {cap0} -> {cap1}"));
    }
    if cap1 != cap0 {
        st.grew = true;
        st.class("reallocated");
    }
}

enum Cur<'a, A: BumpAllocatorTypedScope<'a>> {
    V(BumpVec<u8, A>),
    F(FixedBumpVec<'a, u8>),
}

impl<'a, A: BumpAllocatorTypedScope<'a>> Cur<'a, A> {
    fn slice(&self) -> &[u8] {
        match self {
            Cur::V(v) => v,
            Cur::F(v) => v,
        }
    }
    fn cap(&self) -> usize {
        match self {
            Cur::V(v) => v.capacity(),
            Cur::F(v) => v.capacity(),
        }
    }
    fn name(&self) -> &'static str {
        match self {
            Cur::V(_) => "BumpVec<u8>",
            Cur::F(_) => "FixedBumpVec<u8>",
        }
    }
}

/// constructor family: build a vector of `kind` holding `vals` (+ spare capacity for the fixed one)
fn build<'a, A: BumpAllocatorTypedScope<'a> + Copy>(st: &mut St, a: A, how: u8, vals: &[u8], spare: usize) -> Option<Cur<'a, A>> {
    let what = format!("constructor form {} over {} bytes", how % 10, vals.len());
    st.note(|| what.clone());
    let r = catch_unwind(AssertUnwindSafe(|| -> Option<Cur<'a, A>> {
        Some(match how % 10 {
            0 => Cur::V(BumpVec::try_from_owned_slice_in(vals.to_vec(), a).ok()?),
            1 => Cur::V(BumpVec::try_from_iter_in(vals.iter().copied(), a).ok()?),
            2 => Cur::V(BumpVec::try_from_iter_exact_in(vals.iter().copied(), a).ok()?),
            3 => {
                let arr: [u8; 5] = std::array::from_fn(|i| vals.get(i).copied().unwrap_or(0));
                let mut v = BumpVec::try_from_owned_slice_in(arr, a).ok()?;
                v.truncate(vals.len().min(5));
                v.try_extend_from_slice_copy(vals.get(5..).unwrap_or(&[])).ok()?;
                Cur::V(v)
            }
            4 => {
                // from another bump vector of the same arena (an owned slice itself)
                let src = BumpVec::try_from_iter_in(vals.iter().copied(), a).ok()?;
                Cur::V(BumpVec::try_from_owned_slice_in(src, a).ok()?)
            }
            5 => {
                let b = a.try_alloc_slice_copy(vals).ok()?;
                Cur::V(BumpVec::try_from_owned_slice_in(b, a).ok()?)
            }
            6 => {
                let mut f = FixedBumpVec::try_with_capacity_in(vals.len() + spare, a).ok()?;
                f.try_extend_from_slice_copy(vals).ok()?;
                Cur::F(f)
            }
            7 => Cur::F(FixedBumpVec::try_from_iter_exact_in(vals.iter().copied(), a).ok()?),
            8 => {
                let b = a.try_alloc_slice_copy(vals).ok()?;
                Cur::F(FixedBumpVec::from_init(b))
            }
            _ => {
                let mut v = BumpVec::try_with_capacity_in(spare, a).ok()?;
                v.try_extend_from_slice_copy(vals).ok()?;
                Cur::V(v)
            }
        })
    }));
    match r {
        Ok(Some(c)) => {
            if c.slice() != vals {
                st.fail("C08/constructor-contents", format!("{what}: built {:?}, expected {vals:?}", c.slice()));
                return None;
            }
            if c.cap() < vals.len() {
                st.fail("C08/len-le-capacity", format!("{what}: capacity {} < len {}", c.cap(), vals.len()));
            }
            Some(c)
        }
        Ok(None) => {
            if !with_ctx(0, |c| c.exhausted) {
                st.fail("C08/unexplained-error", format!("{what}: returned an allocation error without cause"));
            }
            None
        }
        Err(p) => {
            st.fail("panic/ctor", format!("{what}: panicked: {}", panic_message(&p)));
            None
        }
    }
}

fn flatten_round<'a, A: BumpAllocatorTypedScope<'a> + Copy>(st: &mut St, a: A, r: &Rec) {
    let n = r.b(2) as usize % 30;
    let items: Vec<[u8; 3]> = (0..n).map(|i| [i as u8, r.b(3).wrapping_add(i as u8), 0x7e]).collect();
    let flat: Vec<u8> = items.iter().flatten().copied().collect();
    let how = r.b(4) % 3;
    let what = format!("into_flattened of {n} x [u8; 3] (kind {how})");
    st.note(|| what.clone());
    st.ops += 1;
    let res = catch_unwind(AssertUnwindSafe(|| -> Option<(Vec<u8>, usize)> {
        Some(match how {
            0 => {
                let v = BumpVec::try_from_iter_in(items.iter().copied(), a).ok()?;
                let f = v.into_flattened();
                (f.to_vec(), f.capacity())
            }
            1 => {
                let mut v = FixedBumpVec::try_with_capacity_in(n + r.b(5) as usize % 5, a).ok()?;
                for i in &items {
                    v.try_push(*i).ok()?;
                }
                let f = v.into_flattened();
                (f.to_vec(), f.capacity())
            }
            _ => {
                let b = a.try_alloc_slice_copy(&items).ok()?;
                let f = b.into_flattened();
                (f.to_vec(), f.len())
            }
        })
    }));
    match res {
        Ok(Some((got, cap))) => {
            if got != flat {
                st.fail("C16/flatten", format!("{what}: gave {got:?}, expected {flat:?}"));
            }
            if cap < got.len() || cap % 3 != 0 {
                st.fail("C16/flatten", format!("{what}: capacity {cap} for {} elements", got.len()));
            }
            st.class("flattened");
        }
        Ok(None) => {}
        Err(p) => st.fail("panic/op", format!("{what}: panicked: {}", panic_message(&p))),
    }
}

fn run_shared<'a, A: BumpAllocatorTypedScope<'a> + Copy>(st: &mut St, a: A, first: u8) {
    let mut m: Vec<u8> = Vec::new();
    let Some(r0) = st.next() else { return };
    let init = bytes(&r0, r0.b(2) as usize % 20);
    let Some(mut cur) = build(st, a, first, &init, r0.b(3) as usize % 40) else { return };
    m.extend_from_slice(&init);
    while let Some(r) = st.next() {
        let sel = r.b(15) % 16;
        if sel == 0 {
            // rebuild through another constructor from the current contents
            let vals = cur.slice().to_vec();
            drop(cur);
            st.rebuilt = true;
            st.class("rebuilt");
            match build(st, a, r.b(1), &vals, r.b(3) as usize % 40) {
                Some(c) => cur = c,
                None => return,
            }
            continue;
        }
        if sel == 1 {
            flatten_round(st, a, &r);
            continue;
        }
        if sel == 2 {
            // into_iter, partially consumed from both ends
            if let Cur::V(v) = cur {
                let (f, b) = (r.b(1) as usize % 5, r.b(2) as usize % 5);
                let what = format!("BumpVec<u8> {m:?}: into_iter, {f} from the front, {b} from the back");
                st.note(|| what.clone());
                st.ops += 1;
                let mut it = v.into_iter();
                let mut dq: std::collections::VecDeque<u8> = m.iter().copied().collect();
                for _ in 0..f {
                    if it.next() != dq.pop_front() {
                        st.fail("C08/returned-value", format!("{what}: front element differs"));
                    }
                }
                for _ in 0..b {
                    if it.next_back() != dq.pop_back() {
                        st.fail("C08/returned-value", format!("{what}: back element differs"));
                    }
                }
                let rest: Vec<u8> = it.collect();
                if rest != dq.iter().copied().collect::<Vec<u8>>() {
                    st.fail("C08/returned-value", format!("{what}: remaining elements {rest:?}, expected {dq:?}"));
                }
                m.clear();
                match build(st, a, r.b(3), &[], r.b(4) as usize % 40) {
                    Some(c) => cur = c,
                    None => return,
                }
            }
            continue;
        }
        if sel == 3 {
            // split_at_spare: the initialised part and the spare capacity as two owned slices
            if let Cur::F(f) = cur {
                let (len, cap, ptr) = (f.len(), f.capacity(), f.as_ptr() as usize);
                st.note(|| format!("FixedBumpVec<u8> len {len} cap {cap}: split_at_spare, refill the spare part"));
                st.ops += 1;
                let (init, spare) = f.split_at_spare();
                if init[..] != m[..] || spare.len() != cap - len || (spare.len() > 0 && spare.as_ptr() as usize != ptr + len) {
                    st.fail("C16/partition", format!("split_at_spare of len {len} cap {cap} at {ptr:#x}: initialised part {:?} at {:#x}, spare part of {} at {:#x}", &init[..], init.as_ptr() as usize, spare.len(), spare.as_ptr() as usize));
                    return;
                }
                // the spare part is an independent owner: filling it does not disturb the other part
                let mut second = FixedBumpVec::from_uninit(spare);
                let fill = bytes(&r, second.capacity().min(1 + r.b(2) as usize % 30));
                if second.try_extend_from_slice_copy(&fill).is_err() || second[..] != fill[..] {
                    st.fail("C16/partition", format!("the spare part (capacity {}) did not take {} bytes", second.capacity(), fill.len()));
                }
                if init[..] != m[..] {
                    st.fail("C16/sibling-changed", format!("filling the spare part changed the initialised part {m:?} -> {:?}", &init[..]));
                }
                st.class("split_at_spare");
                drop(second);
                cur = Cur::F(FixedBumpVec::from_init(init));
            }
            continue;
        }
        if sel == 4 {
            if let Cur::V(v) = &mut cur {
                let (len, cap) = (v.len(), v.capacity());
                st.ops += 1;
                let (init, spare) = v.split_at_spare_mut();
                if init[..] != m[..] || spare.len() != cap - len {
                    st.fail("C16/partition", format!("BumpVec::split_at_spare_mut of len {len} cap {cap}: parts of {} and {}", init.len(), spare.len()));
                    return;
                }
                for s in spare.iter_mut() {
                    s.write(0x99);
                }
                if v[..] != m[..] || v.capacity() != cap {
                    st.fail("C16/sibling-changed", format!("writing the spare capacity changed the vector {m:?} -> {:?}", &v[..]));
                }
            }
            continue;
        }
        let op = decode(&r, m.len());
        let (nm, m0) = (cur.name(), m.clone());
        let cap0 = cur.cap();
        let what = || format!("{nm} {m0:?} (cap {cap0}): {op:?}");
        if st.log.is_some() {
            st.note(&what);
        }
        let fixed = matches!(cur, Cur::F(_));
        let opr = &op;
        let real = catch_unwind(AssertUnwindSafe(|| match &mut cur {
            Cur::V(v) => apply!(v, opr, io: yes),
            Cur::F(v) => apply!(v, opr, io: yes),
        }));
        let after = cur.slice().to_vec();
        let cap1 = cur.cap();
        judge(st, &what, &op, real, &mut m, &after, cap0, cap1, fixed, false);
    }
}

fn run_mut<'a, A: MutBumpAllocatorCoreScope<'a> + bump_scope::traits::MutBumpAllocatorTyped + ?Sized>(st: &mut St, arena: &mut A, first: u8) {
    let mut round = 0u8;
    while let Some(r0) = st.next() {
        round += 1;
        if round > 4 {
            break;
        }
        let rev = (first.wrapping_add(round)) % 2 == 1;
        let init = bytes(&r0, r0.b(2) as usize % 20);
        let n_ops = 1 + r0.b(5) as usize % 12;
        let ctor = r0.b(4) % 4;
        let what = format!("{} constructor form {ctor} over {init:?}", if rev { "MutBumpVecRev<u8>" } else { "MutBumpVec<u8>" });
        st.note(|| what.clone());
        macro_rules! drive {
            ($ty:ident, $io:tt) => {{
                let ar = &mut *arena;
                let init2 = init.clone();
                let built = catch_unwind(AssertUnwindSafe(move || match ctor {
                    0 => $ty::try_from_owned_slice_in(init2, ar).ok(),
                    1 => $ty::try_from_iter_in(init2.iter().copied(), ar).ok(),
                    2 => $ty::try_from_iter_exact_in(init2.iter().copied(), ar).ok(),
                    _ => {
                        let arr: [u8; 4] = std::array::from_fn(|i| init2.get(i).copied().unwrap_or(9));
                        $ty::try_from_owned_slice_in(arr, ar).ok()
                    }
                }));
                let mut v = match built {
                    Ok(Some(v)) => v,
                    Ok(None) => {
                        if !with_ctx(0, |c| c.exhausted) {
                            st.fail("C08/unexplained-error", format!("{what}: returned an allocation error without cause"));
                        }
                        return;
                    }
                    Err(p) => {
                        st.fail("panic/ctor", format!("{what}: panicked: {}", panic_message(&p)));
                        return;
                    }
                };
                let mut m: Vec<u8> = if ctor == 3 { (0..4).map(|i| init.get(i).copied().unwrap_or(9)).collect() } else { init.clone() };
                // documented: the reverse vector built from an iterator holds the items in reverse order
                // (each one is pushed to the front); from_owned_slice_in keeps the order
                if rev && matches!(ctor, 1 | 2) {
                    m.reverse();
                }
                if v[..] != m[..] {
                    st.fail("C08/constructor-contents", format!("{what}: built {:?}, expected {m:?}", &v[..]));
                    return;
                }
                st.rebuilt = true;
                for _ in 0..n_ops {
                    let Some(r) = st.next() else { break };
                    let op = decode(&r, m.len());
                    let m0 = m.clone();
                    let cap0 = v.capacity();
                    let what = || format!("{} {m0:?} (cap {cap0}): {op:?}", stringify!($ty));
                    if st.log.is_some() {
                        st.note(&what);
                    }
                    let opr = &op;
                    let real = catch_unwind(AssertUnwindSafe(|| {
                        let vr = &mut v;
                        apply!(vr, opr, io: $io)
                    }));
                    let after = v.to_vec();
                    let cap1 = v.capacity();
                    judge(st, &what, &op, real, &mut m, &after, cap0, cap1, false, rev);
                    if st.stop {
                        return;
                    }
                }
                {
                    let (len, cap) = (v.len(), v.capacity());
                    let (init, spare) = v.split_at_spare_mut();
                    if init[..] != m[..] || spare.len() != cap - len {
                        st.fail("C16/partition", format!("{what}: split_at_spare_mut of len {len} cap {cap}: parts of {} and {}", init.len(), spare.len()));
                        return;
                    }
                    for s in spare.iter_mut() {
                        s.write(0x99);
                    }
                    if v[..] != m[..] {
                        st.fail("C16/sibling-changed", format!("{what}: writing the spare capacity changed the vector {m:?} -> {:?}", &v[..]));
                    }
                }
                // finalise: the slice equals the model
                let out = v.into_boxed_slice();
                if out[..] != m[..] {
                    st.fail("C08/contents", format!("{what}: into_boxed_slice gave {:?}, expected {m:?}", &out[..]));
                }
            }};
        }
        if rev {
            drive!(MutBumpVecRev, no)
        } else {
            drive!(MutBumpVec, yes)
        }
        st.class(if rev { "kind_rev" } else { "kind_mut" });
    }
}

impl Engine for PlainEngine {
    fn name(&self) -> &'static str {
        "B2/plain-vectors"
    }
    fn max_records(&self) -> usize {
        40
    }
    fn rule(&self) -> String {
        "generator: header (arena cell out of 140 settings/shape cells reached through a trait-object allocator, grant policy, pre-allocation that misaligns the position, first constructor form) + up to 40 records decoded into operations on one BumpVec<u8> / FixedBumpVec<u8> (shared mode, switching kind by rebuilding through from_owned_slice_in / from_iter_in / from_iter_exact_in / from_array_in / from_init / with_capacity_in) or up to 4 successive MutBumpVec<u8> / MutBumpVecRev<u8> (exclusive mode): extend_from_slice_copy, extend_from_within_copy with all range forms incl. out of range, io::Write::{write, write_all, write_vectored}, push, pop, truncate, reserve, into_iter consumed from both ends, into_flattened of [u8; 3] elements on BumpVec / FixedBumpVec / BumpBox. oracle: std Vec<u8> executing the same operation (mirrored model for the reverse vector; fixed capacity => error / panic exactly when the result would not fit). non-trivial: >= 3 copy-family operations and (a capacity change or a rebuild through a constructor); distinct by hash of executed operations".into()
    }
    fn required_classes(&self) -> Vec<(&'static str, f64)> {
        vec![("reallocated", 0.2), ("expected_panic", 0.05), ("kind_rev", 0.05), ("rebuilt", 0.1), ("flattened", 0.05)]
    }
    fn assumptions(&self) -> Vec<String> {
        vec!["std::vec::Vec is the reference model".into()]
    }
    fn run_case(&self, bytes: &[u8], want_desc: bool) -> CaseResult {
        let (hb, rest) = bytes.split_at(bytes.len().min(16));
        let b = |i: usize| hb.get(i).copied().unwrap_or(0);
        let recs: Vec<&[u8]> = rest.chunks(16).collect();
        let cs = cells();
        let cell = &cs[b(0) as usize % cs.len()];
        let ma = 1usize << (b(1) % 5);
        let policy = if b(8) % 3 == 0 { GrantPolicy::Plus(1 + b(9) as usize % 40) } else { GrantPolicy::Exact };
        let congruence = u64::from_le_bytes([b(8), b(9), b(10), b(11), b(12), b(13), b(14), b(15)]);
        talloc::with_ctx(0, |c| c.reset(policy, congruence, FaultPlan::default()));
        let mut st = St { recs, pos: 0, fails: vec![], classes: BTreeSet::new(), log: if want_desc { Some(String::new()) } else { None }, hash: 0xcbf29ce484222325, ops: 0, nops: 0, copy_ops: 0, grew: false, rebuilt: false, stop: false };
        st.note(|| format!("cell [{}] min_align {ma} policy {policy:?}", cell.name));
        let exclusive = b(2) % 3 == 0;
        let first = b(7);
        let prealloc = b(10) as usize % 97;
        let concrete = b(3) % 3 == 0;
        let r = catch_unwind(AssertUnwindSafe(|| {
            if concrete {
                // the typed implementations of the concrete scope types (`&BumpScope` / `&mut BumpScope` as
                // the collections' allocator) instead of the trait-object route
                use bsv_core::talloc::{Handle, Z};
                use bump_scope::Bump;
                use bump_scope::settings::BumpSettings;
                st.class("concrete_scope");
                macro_rules! go {
                    ($MA:literal, $UP:literal) => {{
                        let Ok(mut bump) = Bump::<Z<0>, BumpSettings<$MA, $UP>>::try_with_size_in(if b(11) % 2 == 0 { 512 } else { 1500 }, <Z<0> as Handle>::new()) else { return };
                        let sc = bump.as_mut_scope();
                        if prealloc > 0 {
                            let _ = sc.try_alloc_slice_fill_with::<u8>(prealloc, || 0xEE);
                        }
                        if exclusive { run_mut(&mut st, sc, first) } else { run_shared(&mut st, &*sc, first) }
                    }};
                }
                match (ma, b(12) & 1 == 0) {
                    (1 | 2, true) => go!(1, true),
                    (1 | 2, false) => go!(1, false),
                    (4 | 8, true) => go!(8, true),
                    (4 | 8, false) => go!(8, false),
                    (_, true) => go!(16, true),
                    (_, false) => go!(16, false),
                }
                return;
            }
            (cell.d)(ma, b(11), &mut |arena, _info: Info| {
                {
                    let sh: &dyn MutBumpAllocatorCoreScope<'_> = &*arena;
                    if prealloc > 0 {
                        let _ = sh.try_alloc_slice_fill_with::<u8>(prealloc, || 0xEE);
                    }
                }
                if exclusive { run_mut(&mut st, arena, first) } else { run_shared(&mut st, &*arena, first) }
            });
        }));
        if let Err(p) = r {
            st.fail("panic/engine", format!("unexpected panic: {}", panic_message(&p)));
        }
        let (live, errs) = with_ctx(0, |c| (c.live_grants().count(), std::mem::take(&mut c.errors)));
        for e in errs {
            let id = e.split(':').next().unwrap_or("C05/ledger").to_string();
            st.fail(&id, e.clone());
        }
        if live != 0 {
            st.fail("C05/leak", format!("{live} grant(s) outstanding after the arena was dropped"));
        }
        let nontrivial = st.copy_ops >= 3 && (st.grew || st.rebuilt);
        CaseResult {
            report: CaseReport {
                nontrivial,
                hash: st.hash ^ ((b(0) as u64) << 50),
                classes: st.classes.iter().copied().collect(),
                ops: st.ops,
                nops: st.nops,
                desc: st.log.take(),
                counters: vec![("operations", st.ops)],
            },
            failures: st.fails,
        }
    }
}
