//! Engine C (DESIGN.md C09, C16 strings, C07c): string operation sequences, differential against std
//! `String`. The implementation (strings_impl.rs) is compiled three times: over trait-object allocators
//! (any of the 140 cells) and over two concrete `BumpScope` types, so that the typed implementations of
//! the concrete scopes (`shrink_slice`, `allocate_slice`, prepared allocations) carry string buffers too.

use bump_scope::traits::MutBumpAllocatorCoreScope;

use bsv_core::common::{Info, Rec};
use bsv_core::runner::{CaseResult, Engine};

pub struct StrEngine {
    /// "C09" or "C16" (split_off-heavy mix reporting C16 oracle ids)
    pub split_mix: bool,
    /// C07 stage: fault plans from the header
    pub faulty: bool,
}

pub(crate) fn text(r: &Rec, off: usize, n: usize) -> String {
    dynm::imp::text(r, off, n)
}

use crate::{strings_down8 as down8, strings_dyn as dynm, strings_up4 as up4};

pub fn str_owns(prop: &str, oracle: &str) -> bool {
    // a wrong split_off is wrong string behaviour (C09) as well as an inexact partition (C16)
    oracle.starts_with(prop)
        || oracle.starts_with("panic")
        || oracle.starts_with("crash")
        || (prop == "C09" && oracle.starts_with("C16/str-"))
        // a string whose bytes change through an operation on another string: C02
        || (prop == "C02" && oracle == "C16/str-sibling-changed")
}

impl Engine for StrEngine {
    fn owns(&self, prop: &str, oracle: &str) -> bool {
        str_owns(prop, oracle)
    }
    fn name(&self) -> &'static str {
        "C/strings"
    }
    fn max_records(&self) -> usize {
        40
    }
    fn rule(&self) -> String {
        "generator: header (arena cell, kind, mode) + up to 40 records decoded into operations on up to 3 live strings (BumpBox<str>, FixedBumpString, BumpString; or one MutBumpString at a time) over a 12-character alphabet mixing 1-4 byte scalars, a combining mark, U+FFFD, NUL and U+10FFFF; byte indices cover 0..=len+1 so that non-boundary indices are as likely as boundaries; decoders get valid, truncated, overlong, surrogate and stray-continuation bytes / lone and swapped UTF-16 surrogates; oracle: std String executing the same operation under catch_unwind, core::str::from_utf8 on the raw bytes after every step incl. steps that panicked (retain predicate panics at a generated call). non-trivial: a non-boundary index was used, or a multi-byte character sat at the edge of an edited range, or a decoder got malformed input; distinct by hash of executed operations".into()
    }
    fn required_classes(&self) -> Vec<(&'static str, f64)> {
        vec![("non_boundary_index", 0.2), ("expected_panic", 0.2), ("malformed_input", 0.02), ("retain_panicked", 0.02), ("embedded_nul", 0.02)]
    }
    fn assumptions(&self) -> Vec<String> {
        vec!["std::string::String / String::from_utf8_lossy / from_utf16(_lossy) / format! are the reference".into()]
    }
    fn run_case(&self, bytes: &[u8], want_desc: bool) -> CaseResult {
        // header byte 7 selects the allocator kind: trait object (any cell) or one of two concrete scope types
        let mut r = match bytes.get(7).copied().unwrap_or(0) % 4 {
            0 => down8::imp::run_case_impl(self.split_mix, self.faulty, bytes, want_desc),
            1 => up4::imp::run_case_impl(self.split_mix, self.faulty, bytes, want_desc),
            _ => dynm::imp::run_case_impl(self.split_mix, self.faulty, bytes, want_desc),
        };
        match bytes.get(7).copied().unwrap_or(0) % 4 {
            0 | 1 => r.report.classes.push("concrete_scope"),
            _ => {}
        }
        r
    }
}

#[allow(unused)]
fn _u<'a>(_: &dyn MutBumpAllocatorCoreScope<'a>) {}
