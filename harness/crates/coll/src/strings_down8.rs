//! Engine C instantiated over a concrete scope type (see strings.rs).
use bsv_core::common::Info;
use bsv_core::talloc::{self, Handle, Z};
use bump_scope::settings::BumpSettings;
use bump_scope::{Bump, BumpScope};

pub type Mx<'a> = BumpScope<'a, Z<0>, BumpSettings<8, false>>;

pub fn describe(_cell: u8) -> String {
    "concrete BumpScope<Z, BumpSettings<8, false>>".to_string()
}

pub fn with_arena(_cell: u8, _ma: usize, ctor: u8, f: &mut dyn for<'x, 'y> FnMut(&'x mut Mx<'y>, Info)) -> bool {
    let r: Result<Bump<Z<0>, BumpSettings<8, false>>, _> = if ctor % 2 == 0 { Bump::try_new_in(<Z<0> as Handle>::new()) } else { Bump::try_with_size_in(2048, <Z<0> as Handle>::new()) };
    match r {
        Ok(mut b) => {
            let h = talloc::header_layout::<Z<0>>();
            let info = Info { up: false, min_align: 8, ga: true, de: true, sh: true, mcs: 512, shape: "Z", header_size: h.size(), header_align: h.align(), full: false };
            f(b.as_mut_scope(), info);
            true
        }
        Err(_) => false,
    }
}

#[path = "strings_impl.rs"]
pub mod imp;
