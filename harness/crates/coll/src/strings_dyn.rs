//! Engine C instantiated over trait-object allocators (any of the 140 cells; see strings.rs).
use bsv_cells::cells;
use bsv_core::common::Info;
use bump_scope::traits::MutBumpAllocatorCoreScope;

pub type Mx<'a> = dyn MutBumpAllocatorCoreScope<'a> + 'a;

pub fn describe(cell: u8) -> String {
    let cs = cells();
    cs[cell as usize % cs.len()].name.to_string()
}

pub fn with_arena(cell: u8, ma: usize, ctor: u8, f: &mut dyn for<'x, 'y> FnMut(&'x mut Mx<'y>, Info)) -> bool {
    let cs = cells();
    (cs[cell as usize % cs.len()].d)(ma, ctor, f)
}

#[path = "strings_impl.rs"]
pub mod imp;
