//! Engine C (DESIGN.md C09): string types differential against std `String`, UTF-8 validity
//! after every step (also after panics), lossy / UTF-16 decoders, C-string constructors.

use std::collections::BTreeSet;
use std::ffi::CStr;
use std::fmt::Write as _;
use std::ops::Bound;
use std::panic::{AssertUnwindSafe, catch_unwind};

use bump_scope::traits::{BumpAllocatorCore, BumpAllocatorTypedScope, MutBumpAllocatorCoreScope, MutBumpAllocatorTypedScope};
use bump_scope::{BumpBox, BumpString, BumpVec, FixedBumpString, MutBumpString};

use bsv_core::common::Info;
use bsv_core::common::{Rec, pick};
use crate::coll_api::R2;
use bsv_core::runner::{CaseReport, CaseResult, Engine, Failure, Marker, panic_message};
use bsv_core::talloc::{self, FaultPlan, GrantPolicy, with_ctx};


const ALPHABET: [char; 12] = ['a', 'z', 'é', 'ß', '€', '語', '😀', '\u{0301}', '\u{FFFD}', '\0', 'Q', '\u{10FFFF}'];

pub fn text(r: &Rec, off: usize, n: usize) -> String {
    (0..n).map(|i| ALPHABET[(r.b(off + i % 8) as usize + i * 5) % ALPHABET.len()]).collect()
}

#[derive(Clone, Debug)]
enum SOp {
    Push(char, bool),
    PushStr(String, bool),
    Insert(usize, char, bool),
    InsertStr(usize, String, bool),
    Remove(usize),
    Pop,
    Truncate(usize),
    Clear,
    Retain(u8, Option<usize>),
    Drain(R2, usize, usize),
    ReplaceRange(R2, String, bool),
    ExtendFromWithin(R2, bool),
    SplitOff(R2),
    Reserve(usize),
    ShrinkToFit,
    WriteFmt(String, u32),
    ExtendZeroed(usize, bool),
}

fn resolve(r: &R2, len: usize) -> Option<(usize, usize)> {
    let s = match r.0 {
        Bound::Unbounded => 0,
        Bound::Included(i) => i,
        Bound::Excluded(i) => i.checked_add(1)?,
    };
    let e = match r.1 {
        Bound::Unbounded => len,
        Bound::Included(i) => i.checked_add(1)?,
        Bound::Excluded(i) => i,
    };
    if s > e || e > len { None } else { Some((s, e)) }
}

fn bound(sel: u8, raw: usize, len: usize) -> Bound<usize> {
    let i = pick(raw, len + 3);
    // (rarely the largest index: `..=usize::MAX` / `(Excluded(usize::MAX), ..)` overflow when resolved)
    let i = if sel >= 250 { usize::MAX } else { i };
    match sel % 4 {
        0 => Bound::Unbounded,
        1 | 2 => Bound::Included(i),
        _ => Bound::Excluded(i),
    }
}

enum MR {
    Unit,
    Ch(Option<char>),
    Str(String),
    Part(String),
    Panic,
}

fn keep(kind: u8, c: char) -> bool {
    match kind % 4 {
        0 => c.len_utf8() != 2,
        1 => c != 'a' && c != '€',
        2 => c.is_ascii(),
        _ => (c as u32) % 3 != 0,
    }
}

/// the reference: std String under catch_unwind (panic = out of range / not a char boundary)
fn model_apply(m: &mut String, op: &SOp) -> MR {
    let mut copy = m.clone();
    let r = catch_unwind(AssertUnwindSafe(|| -> MR {
        match op {
            SOp::Push(c, _) => {
                copy.push(*c);
                MR::Unit
            }
            SOp::PushStr(s, _) => {
                copy.push_str(s);
                MR::Unit
            }
            SOp::Insert(i, c, _) => {
                copy.insert(*i, *c);
                MR::Unit
            }
            SOp::InsertStr(i, s, _) => {
                copy.insert_str(*i, s);
                MR::Unit
            }
            SOp::Remove(i) => MR::Ch(Some(copy.remove(*i))),
            SOp::Pop => MR::Ch(copy.pop()),
            SOp::Truncate(n) => {
                copy.truncate(*n);
                MR::Unit
            }
            SOp::Clear => {
                copy.clear();
                MR::Unit
            }
            SOp::Retain(k, _) => {
                copy.retain(|c| keep(*k, c));
                MR::Unit
            }
            SOp::Drain(r, f, b) => {
                let mut d = copy.drain(*r);
                let mut out = String::new();
                for _ in 0..*f {
                    match d.next() {
                        Some(c) => out.push(c),
                        None => break,
                    }
                }
                for _ in 0..*b {
                    match d.next_back() {
                        Some(c) => out.push(c),
                        None => break,
                    }
                }
                // what is left in the draining iterator (Drain::as_str)
                out.push('|');
                out.push_str(d.as_str());
                drop(d);
                MR::Str(out)
            }
            SOp::ReplaceRange(r, s, _) => {
                copy.replace_range(*r, s);
                MR::Unit
            }
            SOp::ExtendFromWithin(r, _) => {
                copy.extend_from_within(*r);
                MR::Unit
            }
            SOp::SplitOff(r) => {
                let (s, e) = match resolve(r, copy.len()) {
                    Some(x) => x,
                    None => panic!("range"),
                };
                let part: String = copy[s..e].to_string();
                copy.replace_range(s..e, "");
                MR::Part(part)
            }
            SOp::Reserve(_) | SOp::ShrinkToFit => MR::Unit,
            SOp::WriteFmt(s, n) => {
                write!(copy, "{s}{n}-{s:>3}").unwrap();
                MR::Unit
            }
            SOp::ExtendZeroed(n, _) => {
                copy.extend(std::iter::repeat('\0').take(*n));
                MR::Unit
            }
        }
    }));
    match r {
        Ok(x) => {
            *m = copy;
            x
        }
        Err(_) => MR::Panic,
    }
}

enum RR<S> {
    Unit,
    Ch(Option<char>),
    Str(String),
    Part(S),
    AllocErr,
    Unsupported,
}

thread_local! {
    static RETAIN_PANIC: std::cell::Cell<Option<usize>> = const { std::cell::Cell::new(None) };
}

macro_rules! str_ops {
    ($s:expr, $op:expr, growth: $g:tt, split: $sp:tt, shrink: $sh:tt) => {{
        let s = $s;
        match $op {
            SOp::Remove(i) => RR::Ch(Some(s.remove(*i))),
            SOp::Pop => RR::Ch(s.pop()),
            SOp::Truncate(n) => {
                s.truncate(*n);
                RR::Unit
            }
            SOp::Clear => {
                s.clear();
                RR::Unit
            }
            SOp::Retain(k, at) => {
                let mut calls = 0usize;
                let at = *at;
                s.retain(|c| {
                    calls += 1;
                    if Some(calls) == at {
                        std::panic::resume_unwind(Box::new(Marker));
                    }
                    keep(*k, c)
                });
                RR::Unit
            }
            SOp::Drain(r, f, b) => {
                let mut d = s.drain(*r);
                let mut out = String::new();
                for _ in 0..*f {
                    match d.next() {
                        Some(c) => out.push(c),
                        None => break,
                    }
                }
                for _ in 0..*b {
                    match d.next_back() {
                        Some(c) => out.push(c),
                        None => break,
                    }
                }
                out.push('|');
                out.push_str(d.as_str());
                drop(d);
                RR::Str(out)
            }
            SOp::SplitOff(r) => sel2!($sp, RR::Part(s.split_off(*r)), RR::Unsupported),
            SOp::Push(c, t) => sel2!(
                $g,
                if *t {
                    match s.try_push(*c) {
                        Ok(()) => RR::Unit,
                        Err(_) => RR::AllocErr,
                    }
                } else {
                    s.push(*c);
                    RR::Unit
                },
                RR::Unsupported
            ),
            SOp::PushStr(x, t) => sel2!(
                $g,
                if *t {
                    match s.try_push_str(x) {
                        Ok(()) => RR::Unit,
                        Err(_) => RR::AllocErr,
                    }
                } else {
                    s.push_str(x);
                    RR::Unit
                },
                RR::Unsupported
            ),
            SOp::Insert(i, c, t) => sel2!(
                $g,
                if *t {
                    match s.try_insert(*i, *c) {
                        Ok(()) => RR::Unit,
                        Err(_) => RR::AllocErr,
                    }
                } else {
                    s.insert(*i, *c);
                    RR::Unit
                },
                RR::Unsupported
            ),
            SOp::InsertStr(i, x, t) => sel2!(
                $g,
                if *t {
                    match s.try_insert_str(*i, x) {
                        Ok(()) => RR::Unit,
                        Err(_) => RR::AllocErr,
                    }
                } else {
                    s.insert_str(*i, x);
                    RR::Unit
                },
                RR::Unsupported
            ),
            SOp::ReplaceRange(r, x, t) => sel2!(
                $g,
                if *t {
                    match s.try_replace_range(*r, x) {
                        Ok(()) => RR::Unit,
                        Err(_) => RR::AllocErr,
                    }
                } else {
                    s.replace_range(*r, x);
                    RR::Unit
                },
                RR::Unsupported
            ),
            SOp::ExtendFromWithin(r, t) => sel2!(
                $g,
                if *t {
                    match s.try_extend_from_within(*r) {
                        Ok(()) => RR::Unit,
                        Err(_) => RR::AllocErr,
                    }
                } else {
                    s.extend_from_within(*r);
                    RR::Unit
                },
                RR::Unsupported
            ),
            SOp::Reserve(n) => sel2!(
                $g,
                match s.try_reserve(*n) {
                    Ok(()) => RR::Unit,
                    Err(_) => RR::AllocErr,
                },
                RR::Unsupported
            ),
            SOp::ShrinkToFit => sel2!(
                $sh,
                {
                    s.shrink_to_fit();
                    RR::Unit
                },
                RR::Unsupported
            ),
            SOp::WriteFmt(x, n) => sel2!(
                $g,
                match write!(s, "{x}{n}-{x:>3}") {
                    Ok(()) => RR::Unit,
                    Err(_) => RR::AllocErr,
                },
                RR::Unsupported
            ),
            SOp::ExtendZeroed(n, t) => sel2!(
                $g,
                if *t {
                    match s.try_extend_zeroed(*n) {
                        Ok(()) => RR::Unit,
                        Err(_) => RR::AllocErr,
                    }
                } else {
                    s.extend_zeroed(*n);
                    RR::Unit
                },
                RR::Unsupported
            ),
        }
    }};
}

macro_rules! sel2 {
    (yes, $a:expr, $b:expr) => {
        $a
    };
    (no, $a:expr, $b:expr) => {
        $b
    };
}

type Sh<'b, 'a> = &'b super::Mx<'a>;

enum SK<'b, 'a> {
    Boxed(BumpBox<'a, str>),
    Fixed(FixedBumpString<'a>),
    Str(BumpString<Sh<'b, 'a>>),
}

impl<'b, 'a> SK<'b, 'a> {
    fn name(&self) -> &'static str {
        match self {
            SK::Boxed(_) => "BumpBox<str>",
            SK::Fixed(_) => "FixedBumpString",
            SK::Str(_) => "BumpString",
        }
    }
    fn as_str(&self) -> &str {
        match self {
            SK::Boxed(b) => b,
            SK::Fixed(f) => f.as_str(),
            SK::Str(s) => s.as_str(),
        }
    }
    fn bytes(&self) -> &[u8] {
        match self {
            SK::Boxed(b) => b.as_bytes(),
            SK::Fixed(f) => f.as_bytes(),
            SK::Str(s) => s.as_bytes(),
        }
    }
    fn capacity(&self) -> usize {
        match self {
            SK::Boxed(b) => b.len(),
            SK::Fixed(f) => f.capacity(),
            SK::Str(s) => s.capacity(),
        }
    }
    fn apply(&mut self, op: &SOp) -> RR<SK<'b, 'a>> {
        match self {
            SK::Boxed(b) => match str_ops!(b, op, growth: no, split: yes, shrink: no) {
                RR::Part(p) => RR::Part(SK::Boxed(p)),
                RR::Unit => RR::Unit,
                RR::Ch(c) => RR::Ch(c),
                RR::Str(s) => RR::Str(s),
                RR::AllocErr => RR::AllocErr,
                RR::Unsupported => RR::Unsupported,
            },
            SK::Fixed(f) => match str_ops!(f, op, growth: yes, split: yes, shrink: no) {
                RR::Part(p) => RR::Part(SK::Fixed(p)),
                RR::Unit => RR::Unit,
                RR::Ch(c) => RR::Ch(c),
                RR::Str(s) => RR::Str(s),
                RR::AllocErr => RR::AllocErr,
                RR::Unsupported => RR::Unsupported,
            },
            SK::Str(s) => match str_ops!(s, op, growth: yes, split: yes, shrink: yes) {
                RR::Part(p) => RR::Part(SK::Str(p)),
                RR::Unit => RR::Unit,
                RR::Ch(c) => RR::Ch(c),
                RR::Str(s) => RR::Str(s),
                RR::AllocErr => RR::AllocErr,
                RR::Unsupported => RR::Unsupported,
            },
        }
    }
}

struct St<'c> {
    recs: Vec<&'c [u8]>,
    pos: usize,
    fails: Vec<Failure>,
    classes: BTreeSet<&'static str>,
    log: Option<String>,
    hash: u64,
    ops: u64,
    nops: u64,
    stop: bool,
    split_mix: bool,
}

impl St<'_> {
    fn fail(&mut self, oracle: &str, msg: String) {
        if let Some(l) = self.log.as_mut() {
            l.push_str(&format!("  !! {oracle}: {msg}\n"));
        }
        if !self.fails.iter().any(|f| f.oracle == oracle) {
            self.fails.push(Failure { oracle: oracle.to_string(), msg });
        }
        if bsv_core::runner::stops_case(crate::strings::str_owns(bsv_core::runner::current_prop(), oracle)) {
            self.stop = true;
        }
    }
    fn note(&mut self, s: impl FnOnce() -> String) {
        if self.log.is_some() && std::env::var_os("VERIF_TRACE").is_some() {
            eprintln!("{}", s());
            return;
        }
        if let Some(l) = self.log.as_mut() {
            l.push_str(&s());
            l.push('\n');
        }
    }
    fn class(&mut self, c: &'static str) {
        self.classes.insert(c);
    }
}

fn decode(r: &Rec, len: usize, faulty: bool, split_mix: bool) -> SOp {
    let try_ = faulty || r.b(1) & 1 == 1;
    let idx = pick(r.u16(2), len + 2);
    let n = r.b(5) as usize % 6;
    let range = if r.b(1) & 2 == 0 {
        let a = pick(r.u16(2), len + 1);
        let b = pick(r.u16(4), len + 1);
        (Bound::Included(a.min(b)), Bound::Excluded(a.max(b)))
    } else {
        (bound(r.b(6), r.u16(2), len), bound(r.b(7), r.u16(4), len))
    };
    let c = ALPHABET[r.b(4) as usize % ALPHABET.len()];
    match r.b(0) % if split_mix { 26 } else { 20 } {
        0..=2 => SOp::Push(c, try_),
        3 | 4 => SOp::PushStr(text(r, 8, n), try_),
        5 => SOp::Insert(idx, c, try_),
        6 => SOp::InsertStr(idx, text(r, 8, n), try_),
        7 | 8 => SOp::Remove(idx),
        9 => SOp::Pop,
        10 => SOp::Truncate(idx),
        11 => {
            if r.b(5) % 5 == 0 {
                SOp::Clear
            } else {
                SOp::Reserve(r.b(5) as usize % 50)
            }
        }
        12 => SOp::Retain(r.b(4), if r.b(5) % 3 == 0 { Some(1 + r.b(6) as usize % 6) } else { None }),
        13 | 14 => SOp::Drain(range, r.b(8) as usize % 4, r.b(9) as usize % 3),
        15 | 16 => SOp::ReplaceRange(range, text(r, 8, n), try_),
        17 => SOp::ExtendFromWithin(range, try_),
        18 => {
            if r.b(5) & 1 == 0 {
                SOp::ShrinkToFit
            } else {
                SOp::WriteFmt(text(r, 8, n % 3), r.u16(10) as u32)
            }
        }
        19 if r.b(5) % 3 == 0 => SOp::ExtendZeroed(if r.b(6) % 4 == 0 { r.u16(8) as usize % 600 } else { r.b(6) as usize % 24 }, try_),
        _ => SOp::SplitOff(range),
    }
}

fn utf8_ok(st: &mut St, bytes: &[u8], what: &str) {
    if std::str::from_utf8(bytes).is_err() {
        st.fail("C09/valid-utf8", format!("{what}: contents are not valid UTF-8: {bytes:x?}"));
    }
}

/// one operation on (real, model)
fn step<'b, 'a>(st: &mut St, s: &mut SK<'b, 'a>, m: &mut String, op: &SOp) -> Option<(SK<'b, 'a>, String)> {
    let len0 = s.as_str().len();
    let cap0 = s.capacity();
    let what = format!("{} {:?} (cap {cap0}): {op:?}", s.name(), m);
    st.note(|| what.clone());
    let faults0 = with_ctx(0, |c| c.faults_fired);
    let real = catch_unwind(AssertUnwindSafe(|| s.apply(op)));
    let faults = with_ctx(0, |c| c.faults_fired) - faults0;
    if matches!(real, Ok(RR::Unsupported)) {
        st.nops += 1;
        return None;
    }
    st.ops += 1;
    st.hash ^= bsv_core::runner::fnv(format!("{op:?}").as_bytes());
    st.hash = st.hash.wrapping_mul(0x100000001b3);
    // classification: multi-byte char at an edge, non-boundary index
    let nonboundary = |i: usize| i <= m.len() && !m.is_char_boundary(i);
    match op {
        SOp::Insert(i, ..) | SOp::InsertStr(i, ..) | SOp::Remove(i) | SOp::Truncate(i) => {
            if nonboundary(*i) {
                st.class("non_boundary_index");
            }
        }
        SOp::Drain(r, ..) | SOp::ReplaceRange(r, ..) | SOp::ExtendFromWithin(r, _) | SOp::SplitOff(r) => {
            if let Some((a, b)) = resolve(r, m.len()) {
                if nonboundary(a) || nonboundary(b) {
                    st.class("non_boundary_index");
                } else if a < b && (m[a..b].chars().next().map(|c| c.len_utf8() > 1).unwrap_or(false) || m[a..b].chars().next_back().map(|c| c.len_utf8() > 1).unwrap_or(false)) {
                    st.class("multibyte_at_edge");
                }
            }
        }
        _ => {}
    }
    let injected = matches!(op, SOp::Retain(_, Some(_)));
    let mut m2 = m.clone();
    let exp = model_apply(&mut m2, op);
    let mut part = None;
    let is_fixed = matches!(s, SK::Fixed(_));
    // split_off belongs to C09 (string semantics, boundary panics) and to C16 (exact partition): the id follows the run
    let split_mix = st.split_mix;
    let split_id = |id: &str| -> String { if split_mix && matches!(op, SOp::SplitOff(_)) { id.replace("C09/", "C16/str-") } else { id.to_string() } };
    match real {
        Err(p) => {
            if p.is::<Marker>() && injected {
                st.class("retain_panicked");
                // contents after the panic: valid UTF-8, resynchronise
                utf8_ok(st, s.bytes(), &what);
                *m = String::from_utf8_lossy(s.bytes()).into_owned();
                return None;
            }
            let msg = panic_message(&p);
            if matches!(exp, MR::Panic) {
                st.class("expected_panic");
                if s.as_str() != m.as_str() {
                    st.fail(&split_id("C09/state-after-arg-panic"), format!("{what}: argument panic changed the contents to {:?}", s.as_str()));
                }
            } else if is_fixed && m2.len() > cap0 {
                st.class("fixed_full");
                *m = s.as_str().to_string();
            } else {
                st.fail(&split_id("C09/panic-verdict"), format!("{what}: panicked ({msg}) where std String does not"));
            }
        }
        Ok(res) => match (res, exp) {
            (RR::AllocErr, _) => {
                if !(faults > 0 || (is_fixed && (m2.len() > cap0 || matches!(op, SOp::Reserve(n) if len0 + n > cap0))) || with_ctx(0, |c| c.exhausted)) {
                    st.fail("C09/unexplained-error", format!("{what}: allocation error without cause"));
                }
                if faults > 0 {
                    st.class("fault_fired");
                }
                if s.as_str() != m.as_str() {
                    // a formatted write is a sequence of pushes: the pieces written before the failing one stay
                    // (as with io::Write / fmt::Write on any sink); every other operation is all-or-nothing
                    let partial_ok = matches!(op, SOp::WriteFmt(..)) && s.as_str().starts_with(m.as_str()) && m2.starts_with(s.as_str());
                    if !partial_ok {
                        st.fail("C07/collection-state-after-failure", format!("{what}: failed operation changed the contents to {:?}", s.as_str()));
                    }
                    *m = s.as_str().to_string();
                }
            }
            (_, MR::Panic) => {
                if injected {
                    // the model does not panic for retain; unreachable
                }
                st.fail(&split_id("C09/panic-verdict"), format!("{what}: returned normally where std String panics (out of range / not a char boundary)"))
            }
            (RR::Unit, MR::Unit) => *m = m2,
            (RR::Ch(a), MR::Ch(b)) => {
                if a != b {
                    st.fail("C09/returned-value", format!("{what}: returned {a:?}, std returns {b:?}"));
                }
                *m = m2;
            }
            (RR::Str(a), MR::Str(b)) => {
                if a != b {
                    st.fail("C09/returned-value", format!("{what}: yielded {a:?}, std yields {b:?}"));
                }
                *m = m2;
            }
            (RR::Part(p), MR::Part(b)) => {
                if p.as_str() != b {
                    st.fail("C16/str-partition", format!("{what}: split-off part {:?} != {b:?}", p.as_str()));
                }
                utf8_ok(st, p.bytes(), &what);
                if matches!(s, SK::Fixed(_) | SK::Str(_)) && p.capacity() + s.capacity() != cap0 {
                    st.fail("C16/str-capacity-sum", format!("{what}: capacities {} + {} != {cap0}", s.capacity(), p.capacity()));
                }
                *m = m2;
                st.class("split_off");
                part = Some((p, b));
            }
            _ => st.fail("C09/result-shape", format!("{what}: unexpected result shape")),
        },
    }
    if st.stop {
        return part;
    }
    utf8_ok(st, s.bytes(), &what);
    if s.as_str() != m.as_str() {
        st.fail(&split_id("C09/contents"), format!("{what}: contents {:?} != model {m:?}", s.as_str()));
    }
    if s.capacity() < s.as_str().len() {
        st.fail("C09/len-le-capacity", format!("{what}: capacity {} < len {}", s.capacity(), s.as_str().len()));
    }
    part
}

fn bytes_input(r: &Rec) -> Vec<u8> {
    let mut v: Vec<u8> = text(r, 8, r.b(5) as usize % 7).into_bytes();
    match r.b(6) % 8 {
        0 | 1 => {}
        2 => {
            v.pop();
        }
        3 => v.insert(pick(r.u16(2), v.len() + 1), 0x80),
        4 => v.insert(pick(r.u16(2), v.len() + 1), 0xC0),
        5 => v.extend_from_slice(&[0xED, 0xA0, 0x80]),
        6 => v.insert(pick(r.u16(2), v.len() + 1), 0xF8),
        _ => {
            if !v.is_empty() {
                let i = pick(r.u16(2), v.len());
                v.truncate(i);
                v.push(0xE2);
            }
        }
    }
    // a second malformation (adjacent invalid sequences, invalid bytes in the middle)
    match r.b(7) % 8 {
        0 => v.insert(pick(r.u16(12), v.len() + 1), 0xFF),
        1 => {
            let i = pick(r.u16(12), v.len() + 1);
            v.insert(i, 0xFE);
            v.insert(i, 0xFF);
        }
        2 => {
            let i = pick(r.u16(12), v.len() + 1);
            for (k, b) in [0xF0u8, 0x80, 0x80, 0x80].iter().enumerate() {
                v.insert(i + k, *b);
            }
        }
        3 => v.insert(0, 0xBF),
        _ => {}
    }
    v
}

fn u16_input(r: &Rec) -> Vec<u16> {
    let mut v: Vec<u16> = text(r, 8, r.b(5) as usize % 7).encode_utf16().collect();
    match r.b(6) % 5 {
        0 | 1 => {}
        2 => v.insert(pick(r.u16(2), v.len() + 1), 0xD800),
        3 => v.insert(pick(r.u16(2), v.len() + 1), 0xDC00),
        _ => {
            v.push(0xDC00);
            v.push(0xD800);
        }
    }
    v
}

fn cstr_expected(s: &str) -> Vec<u8> {
    let b = s.as_bytes();
    let n = b.iter().position(|c| *c == 0).unwrap_or(b.len());
    let mut v = b[..n].to_vec();
    v.push(0);
    v
}

fn check_cstr(st: &mut St, c: &CStr, src: &str, what: &str) {
    let exp = cstr_expected(src);
    if c.to_bytes_with_nul() != exp.as_slice() {
        st.fail("C09/cstr", format!("{what}: C string bytes {:x?} != expected {exp:x?} for {src:?}", c.to_bytes_with_nul()));
    }
}

/// constructors / decoders: one-shot differential checks
fn ctor_checks<'b, 'a>(st: &mut St, a: Sh<'b, 'a>, r: &Rec, faulty: bool) {
    let sel = r.b(4) % 13;
    st.ops += 1;
    if faulty && r.b(13) % 2 == 0 {
        // leave only a few bytes in the current chunk, so that the constructor has to ask the base allocator
        if let Some(c) = a.any_stats().current_chunk() {
            let rem = c.remaining();
            let keep = r.b(14) as usize % 24;
            if rem > keep + 1 {
                let _ = a.try_alloc_slice_fill_with::<u8>(rem - keep, || 0xEE);
            }
        }
    }
    let faults0 = with_ctx(0, |c| c.faults_fired);
    match sel {
        0 | 1 => {
            let b = bytes_input(r);
            let what = format!("from_utf8_lossy_in({b:x?})");
            st.note(|| what.clone());
            if std::str::from_utf8(&b).is_err() {
                st.class("malformed_input");
            }
            if let Ok(s) = BumpString::try_from_utf8_lossy_in(&b, a) {
                utf8_ok(st, s.as_bytes(), &what);
                let exp = String::from_utf8_lossy(&b);
                if s.as_str() != exp {
                    st.fail("C09/lossy", format!("{what}: {:?} != std {exp:?}", s.as_str()));
                }
            }
        }
        2 => {
            let b = bytes_input(r);
            let what = format!("from_utf8({b:x?})");
            st.note(|| what.clone());
            let mut v: BumpVec<u8, Sh<'b, 'a>> = BumpVec::new_in(a);
            if v.try_extend_from_slice_copy(&b).is_err() {
                return;
            }
            let std_ok = std::str::from_utf8(&b).is_ok();
            if !std_ok {
                st.class("malformed_input");
            }
            if r.b(9) & 1 == 1 {
                // the fixed-capacity twin
                let mut fv = match bump_scope::FixedBumpVec::<u8>::try_with_capacity_in(b.len() + r.b(10) as usize % 4, a) {
                    Ok(f) => f,
                    Err(_) => return,
                };
                let _ = fv.try_extend_from_slice_copy(&b);
                drop(v);
                match FixedBumpString::from_utf8(fv) {
                    Ok(s) => {
                        if !std_ok || s.as_bytes() != b.as_slice() {
                            st.fail("C09/from-utf8", format!("FixedBumpString::{what}: accepted invalid UTF-8 or changed the bytes"));
                        }
                    }
                    Err(e) => {
                        if std_ok {
                            st.fail("C09/from-utf8", format!("FixedBumpString::{what}: rejected valid UTF-8"));
                        }
                        if e.into_bytes()[..] != b[..] {
                            st.fail("C09/from-utf8", format!("FixedBumpString::{what}: the error does not give the bytes back"));
                        }
                    }
                }
                return;
            }
            match BumpString::from_utf8(v) {
                Ok(s) => {
                    if !std_ok {
                        st.fail("C09/from-utf8", format!("{what}: accepted invalid UTF-8"));
                    } else if s.as_bytes() != b.as_slice() {
                        st.fail("C09/from-utf8", format!("{what}: contents changed"));
                    }
                }
                Err(e) => {
                    if std_ok {
                        st.fail("C09/from-utf8", format!("{what}: rejected valid UTF-8"));
                    }
                    if e.into_bytes().as_slice() != b.as_slice() {
                        st.fail("C09/from-utf8", format!("{what}: the error does not give the bytes back"));
                    }
                }
            }
        }
        3 | 4 => {
            let u = u16_input(r);
            let what = format!("from_utf16(_lossy)_in({u:x?})");
            st.note(|| what.clone());
            let std_r = String::from_utf16(&u);
            if std_r.is_err() {
                st.class("malformed_input");
            }
            let r16 = BumpString::try_from_utf16_in(&u, a);
            let faults = with_ctx(0, |c| c.faults_fired) - faults0;
            if faults > 0 && r16.is_ok() {
                st.fail("C07/ok-despite-failure", format!("{what}: a base-allocator call failed but try_from_utf16_in returned {:?} instead of an allocation error", r16.as_ref().map(|x| x.as_ref().map(|s| s.as_str().to_string()).map_err(|_| "FromUtf16Error"))));
            }
            if let Ok(res) = r16 {
                match (res, &std_r) {
                    (Ok(s), Ok(e)) => {
                        if s.as_str() != e {
                            st.fail("C09/utf16", format!("{what}: {:?} != std {e:?}", s.as_str()));
                        }
                    }
                    (Err(_), Err(_)) => {}
                    (Ok(s), Err(_)) => st.fail("C09/utf16", format!("{what}: accepted invalid UTF-16 as {:?}", s.as_str())),
                    (Err(_), Ok(_)) => st.fail("C09/utf16", format!("{what}: rejected valid UTF-16")),
                }
            }
            if let Ok(s) = BumpString::try_from_utf16_lossy_in(&u, a) {
                utf8_ok(st, s.as_bytes(), &what);
                let exp = String::from_utf16_lossy(&u);
                if s.as_str() != exp {
                    st.fail("C09/utf16", format!("{what}: lossy {:?} != std {exp:?}", s.as_str()));
                }
            }
        }
        5 => {
            let t = text(r, 8, r.b(5) as usize % 8);
            let what = format!("alloc_cstr_from_str({t:?})");
            st.note(|| what.clone());
            if t.contains('\0') {
                st.class("embedded_nul");
            }
            if let Ok(c) = a.try_alloc_cstr_from_str(&t) {
                check_cstr(st, c, &t, &what);
            }
        }
        6 => {
            let t = text(r, 8, r.b(5) as usize % 8);
            let n = r.u16(10);
            let what = format!("alloc_cstr_fmt({t:?}{n})");
            st.note(|| what.clone());
            if t.contains('\0') {
                st.class("embedded_nul");
            }
            if let Ok(c) = a.try_alloc_cstr_fmt(format_args!("{t}{n}")) {
                check_cstr(st, c, &format!("{t}{n}"), &what);
            }
        }
        7 => {
            let t = text(r, 8, r.b(5) as usize % 8);
            let what = format!("BumpString::into_cstr({t:?})");
            st.note(|| what.clone());
            if t.contains('\0') {
                st.class("embedded_nul");
            }
            if let Ok(s) = BumpString::try_from_str_in(&t, a) {
                if let Ok(c) = s.try_into_cstr() {
                    check_cstr(st, c, &t, &what);
                }
            }
        }
        8 => {
            let t = text(r, 8, r.b(5) as usize % 8);
            let n = r.u16(10);
            let what = format!("alloc_fmt / alloc_str({t:?}{n})");
            st.note(|| what.clone());
            if let Ok(b) = a.try_alloc_fmt(format_args!("{t}{n:>4}|{t}")) {
                let exp = format!("{t}{n:>4}|{t}");
                if &*b != exp.as_str() {
                    st.fail("C09/fmt", format!("{what}: {:?} != {exp:?}", &*b));
                }
            }
            if let Ok(b) = a.try_alloc_str(&t) {
                if &*b != t.as_str() {
                    st.fail("C09/fmt", format!("{what}: alloc_str {:?} != {t:?}", &*b));
                }
            }
            // format_args! without arguments takes the `as_str()` shortcut
            match r.b(6) % 4 {
                0 => {
                    if let Ok(b) = a.try_alloc_fmt(format_args!("plain é literal")) {
                        if &*b != "plain é literal" {
                            st.fail("C09/fmt", format!("alloc_fmt of a literal gave {:?}", &*b));
                        }
                    }
                }
                1 => {
                    if let Ok(c) = a.try_alloc_cstr_fmt(format_args!("ab\0cd")) {
                        check_cstr(st, c, "ab\0cd", "alloc_cstr_fmt of a literal with a NUL");
                    }
                }
                2 => {
                    if let Ok(c) = a.try_alloc_cstr_fmt(format_args!("no nul")) {
                        check_cstr(st, c, "no nul", "alloc_cstr_fmt of a literal");
                    }
                }
                _ => {}
            }
        }
        10 => {
            // BumpBox<[u8]> -> BumpBox<str>
            let b = bytes_input(r);
            let what = format!("BumpBox::<str>::from_utf8({b:x?})");
            st.note(|| what.clone());
            let std_ok = std::str::from_utf8(&b).is_ok();
            if !std_ok {
                st.class("malformed_input");
            }
            let Ok(bx) = a.try_alloc_slice_copy(&b) else { return };
            match BumpBox::<str>::from_utf8(bx) {
                Ok(sx) => {
                    if !std_ok || sx.as_bytes() != b.as_slice() {
                        st.fail("C09/from-utf8", format!("{what}: accepted invalid UTF-8 or changed the bytes"));
                    }
                }
                Err(e) => {
                    if std_ok {
                        st.fail("C09/from-utf8", format!("{what}: rejected valid UTF-8"));
                    }
                    if e.into_bytes()[..] != b[..] {
                        st.fail("C09/from-utf8", format!("{what}: the error does not give the bytes back"));
                    }
                }
            }
        }
        11 => {
            // a full fixed string from an existing str: no room, contents kept
            let t = text(r, 8, r.b(5) as usize % 8);
            let what = format!("FixedBumpString::from_init({t:?})");
            st.note(|| what.clone());
            let Ok(bx) = a.try_alloc_str(&t) else { return };
            let mut f = FixedBumpString::from_init(bx);
            if f.as_str() != t || f.capacity() != t.len() {
                st.fail("C09/contents", format!("{what}: {:?} cap {}", f.as_str(), f.capacity()));
            }
            if f.try_push('x').is_ok() {
                st.fail("C09/fixed-never-grows", format!("{what}: a full fixed string accepted a push"));
            }
            if f.as_str() != t {
                st.fail("C07/collection-state-after-failure", format!("{what}: failed push changed the contents to {:?}", f.as_str()));
            }
            if let Some(c) = t.chars().last() {
                if f.pop() != Some(c) || f.try_push(c).is_err() || f.as_str() != t {
                    st.fail("C09/contents", format!("{what}: pop + push of the last character gave {:?}", f.as_str()));
                }
            }
        }
        12 => {
            // an empty fixed string over uninitialised bytes: takes exactly its capacity
            let t = text(r, 8, 1 + r.b(5) as usize % 8);
            let cap = t.len() + r.b(6) as usize % 3;
            let what = format!("FixedBumpString::from_uninit({cap} bytes) then push_str({t:?})");
            st.note(|| what.clone());
            let Ok(u) = a.try_alloc_uninit_slice::<u8>(cap) else { return };
            let mut f = FixedBumpString::from_uninit(u);
            if !f.is_empty() || f.capacity() != cap {
                st.fail("C09/contents", format!("{what}: new string has len {} cap {}", f.len(), f.capacity()));
            }
            if f.try_push_str(&t).is_err() || f.as_str() != t {
                st.fail("C09/contents", format!("{what}: contents {:?}", f.as_str()));
            }
            let more = "é".repeat(2);
            let fits = t.len() + more.len() <= cap;
            if f.try_push_str(&more).is_ok() != fits {
                st.fail("C09/fixed-never-grows", format!("{what}: pushing {} more bytes into capacity {cap}: fits = {fits}", more.len()));
            }
            utf8_ok(st, f.as_bytes(), &what);
        }
        _ => {
            let t = text(r, 8, r.b(5) as usize % 8);
            if let Some(nul) = t.find('\0') {
                let _ = nul;
            }
            let c = std::ffi::CString::new(t.replace('\0', "")).unwrap();
            let what = format!("alloc_cstr({c:?})");
            st.note(|| what.clone());
            if let Ok(r) = a.try_alloc_cstr(&c) {
                if r.to_bytes_with_nul() != c.to_bytes_with_nul() {
                    st.fail("C09/cstr", format!("{what}: copy differs"));
                }
            }
        }
    }
}

fn new_sk<'b, 'a>(a: Sh<'b, 'a>, kind: u8, init: &str, extra: usize) -> Option<SK<'b, 'a>> {
    Some(match kind % 3 {
        0 => SK::Boxed(a.try_alloc_str(init).ok()?),
        1 => {
            let mut f = FixedBumpString::try_with_capacity_in(init.len() + extra, a).ok()?;
            f.push_str(init);
            SK::Fixed(f)
        }
        _ => SK::Str(BumpString::try_from_str_in(init, a).ok()?),
    })
}

fn run_shared<'b, 'a>(st: &mut St, a: Sh<'b, 'a>, first: u8, faulty: bool) {
    let mut lives: Vec<(SK<'b, 'a>, String)> = Vec::new();
    while st.pos < st.recs.len() && !st.stop {
        let r = Rec(st.recs[st.pos]);
        st.pos += 1;
        if lives.is_empty() || (r.b(14) % 16 == 0 && lives.len() < 3) {
            let init = text(&r, 8, r.b(5) as usize % 7);
            if let Some(s) = new_sk(a, first.wrapping_add(r.b(6)), &init, r.b(7) as usize % 12) {
                st.note(|| format!("new {} {init:?}", s.name()));
                lives.push((s, init));
            }
            continue;
        }
        if r.b(14) % 16 == 1 {
            ctor_checks(st, a, &r, faulty);
            continue;
        }
        if r.b(14) % 16 == 2 {
            // conversions
            let i = pick(r.u16(12), lives.len());
            let (s, m) = lives.remove(i);
            st.ops += 1;
            match s {
                SK::Str(s) => {
                    if r.b(5) & 1 == 0 {
                        let b = s.into_boxed_str();
                        if &*b != m.as_str() {
                            st.fail("C09/conversion", format!("into_boxed_str changed {m:?} to {:?}", &*b));
                        }
                        lives.push((SK::Boxed(b), m));
                    } else {
                        let f = s.into_fixed_string();
                        if f.as_str() != m.as_str() {
                            st.fail("C09/conversion", format!("into_fixed_string changed {m:?} to {:?}", f.as_str()));
                        }
                        lives.push((SK::Fixed(f), m));
                    }
                }
                SK::Fixed(f) => {
                    let s = BumpString::from_parts(f, a);
                    lives.push((SK::Str(s), m));
                }
                SK::Boxed(b) => drop(b),
            }
            continue;
        }
        let i = pick(r.u16(12), lives.len());
        let len = lives[i].1.len();
        let op = decode(&r, len, faulty, st.split_mix);
        let (s, m) = &mut lives[i];
        if let Some((p, pm)) = step(st, s, m, &op) {
            lives.push((p, pm));
        }
        if st.stop {
            break;
        }
        // independence of parts
        for (k, (s, m)) in lives.iter().enumerate() {
            if k != i && s.as_str() != m.as_str() {
                st.fail("C16/str-sibling-changed", format!("after {op:?} on string {i}: string {k} changed {m:?} -> {:?}", s.as_str()));
                break;
            }
        }
    }
}

fn run_mut<'a>(st: &mut St, arena: &mut super::Mx<'a>, faulty: bool) {
    let mut round = 0;
    while st.pos < st.recs.len() && !st.stop && round < 4 {
        round += 1;
        let r0 = Rec(st.recs[st.pos]);
        st.pos += 1;
        let init = text(&r0, 8, r0.b(5) as usize % 6);
        let n_ops = 1 + r0.b(6) as usize % 10;
        let fin = r0.b(7) % 4;
        st.note(|| format!("MutBumpString::from_str_in({init:?}) ops {n_ops} finalise {fin}"));
        let a = &mut *arena;
        // creation: from a str, or through MutBumpString's own decoders (separate code from BumpString's)
        let (mut s, mut m) = match r0.b(9) % 6 {
            0 | 1 => {
                let b = bytes_input(&r0);
                if std::str::from_utf8(&b).is_err() {
                    st.class("malformed_input");
                }
                let what = format!("MutBumpString::from_utf8_lossy_in({b:x?})");
                st.note(|| what.clone());
                let Ok(s) = MutBumpString::try_from_utf8_lossy_in(&b, a) else { continue };
                let exp = String::from_utf8_lossy(&b).into_owned();
                utf8_ok(st, s.as_bytes(), &what);
                if s.as_str() != exp {
                    st.fail("C09/lossy", format!("{what}: {:?} != std {exp:?}", s.as_str()));
                    return;
                }
                (s, exp)
            }
            2 => {
                let u = u16_input(&r0);
                let what = format!("MutBumpString::from_utf16_lossy_in({u:x?})");
                st.note(|| what.clone());
                if String::from_utf16(&u).is_err() {
                    st.class("malformed_input");
                }
                let Ok(s) = MutBumpString::try_from_utf16_lossy_in(&u, a) else { continue };
                let exp = String::from_utf16_lossy(&u);
                utf8_ok(st, s.as_bytes(), &what);
                if s.as_str() != exp {
                    st.fail("C09/utf16", format!("{what}: lossy {:?} != std {exp:?}", s.as_str()));
                    return;
                }
                (s, exp)
            }
            3 => {
                let u = u16_input(&r0);
                let what = format!("MutBumpString::from_utf16_in({u:x?})");
                st.note(|| what.clone());
                let std_r = String::from_utf16(&u);
                if std_r.is_err() {
                    st.class("malformed_input");
                }
                let Ok(res) = MutBumpString::try_from_utf16_in(&u, a) else { continue };
                match (res, std_r) {
                    (Ok(s), Ok(e)) => {
                        if s.as_str() != e {
                            st.fail("C09/utf16", format!("{what}: {:?} != std {e:?}", s.as_str()));
                            return;
                        }
                        (s, e)
                    }
                    (Err(_), Err(_)) => continue,
                    (Ok(s), Err(_)) => {
                        st.fail("C09/utf16", format!("{what}: accepted invalid UTF-16 as {:?}", s.as_str()));
                        return;
                    }
                    (Err(_), Ok(_)) => {
                        st.fail("C09/utf16", format!("{what}: rejected valid UTF-16"));
                        return;
                    }
                }
            }
            4 => {
                let b = bytes_input(&r0);
                let what = format!("MutBumpString::from_utf8(MutBumpVec {b:x?})");
                st.note(|| what.clone());
                let Ok(v) = bump_scope::MutBumpVec::try_from_owned_slice_in(b.clone(), a) else { continue };
                let std_ok = std::str::from_utf8(&b).is_ok();
                if !std_ok {
                    st.class("malformed_input");
                }
                match MutBumpString::from_utf8(v) {
                    Ok(s) => {
                        if !std_ok || s.as_bytes() != b.as_slice() {
                            st.fail("C09/from-utf8", format!("{what}: accepted invalid UTF-8 or changed the bytes"));
                            return;
                        }
                        let m = s.as_str().to_string();
                        (s, m)
                    }
                    Err(e) => {
                        if std_ok {
                            st.fail("C09/from-utf8", format!("{what}: rejected valid UTF-8"));
                        }
                        if e.into_bytes()[..] != b[..] {
                            st.fail("C09/from-utf8", format!("{what}: the error does not give the bytes back"));
                        }
                        continue;
                    }
                }
            }
            _ => {
                let Ok(s) = MutBumpString::try_from_str_in(&init, a) else { continue };
                (s, init.clone())
            }
        };
        for _ in 0..n_ops {
            if st.pos >= st.recs.len() || st.stop {
                break;
            }
            let r = Rec(st.recs[st.pos]);
            st.pos += 1;
            let op = decode(&r, m.len(), faulty, false);
            let what = format!("MutBumpString {m:?}: {op:?}");
            st.note(|| what.clone());
            let mut m2 = m.clone();
            let exp = model_apply(&mut m2, &op);
            let real = catch_unwind(AssertUnwindSafe(|| -> RR<()> {
                let sr = &mut s;
                let rr: RR<()> = str_ops!(sr, &op, growth: yes, split: no, shrink: no);
                rr
            }));
            st.ops += 1;
            match (real, exp) {
                (Ok(RR::Unsupported), _) => {
                    st.nops += 1;
                    continue;
                }
                (Err(p), e) => {
                    if p.is::<Marker>() {
                        st.class("retain_panicked");
                        utf8_ok(st, s.as_bytes(), &what);
                        m = String::from_utf8_lossy(s.as_bytes()).into_owned();
                        continue;
                    }
                    if !matches!(e, MR::Panic) {
                        st.fail("C09/panic-verdict", format!("{what}: panicked ({}) where std String does not", panic_message(&p)));
                    } else {
                        st.class("expected_panic");
                    }
                }
                (Ok(RR::AllocErr), _) => {
                    if s.as_str() != m.as_str() {
                        let partial_ok = matches!(op, SOp::WriteFmt(..)) && s.as_str().starts_with(m.as_str()) && m2.starts_with(s.as_str());
                        if !partial_ok {
                            st.fail("C07/collection-state-after-failure", format!("{what}: failed operation changed the contents"));
                        }
                        m = s.as_str().to_string();
                    }
                }
                (Ok(_), MR::Panic) => st.fail("C09/panic-verdict", format!("{what}: returned normally where std String panics")),
                (Ok(RR::Ch(a)), MR::Ch(b)) => {
                    if a != b {
                        st.fail("C09/returned-value", format!("{what}: returned {a:?}, std {b:?}"));
                    }
                    m = m2;
                }
                (Ok(RR::Str(a)), MR::Str(b)) => {
                    if a != b {
                        st.fail("C09/returned-value", format!("{what}: yielded {a:?}, std {b:?}"));
                    }
                    m = m2;
                }
                (Ok(_), _) => m = m2,
            }
            utf8_ok(st, s.as_bytes(), &what);
            if !st.stop && s.as_str() != m.as_str() {
                st.fail("C09/contents", format!("{what}: contents {:?} != model {m:?}", s.as_str()));
            }
        }
        if st.stop {
            break;
        }
        match fin {
            0 => drop(s),
            1 => {
                let b = s.into_boxed_str();
                if &*b != m.as_str() {
                    st.fail("C09/conversion", format!("MutBumpString::into_boxed_str: {:?} != {m:?}", &*b));
                }
            }
            2 => {
                if m.contains('\0') {
                    st.class("embedded_nul");
                }
                if let Ok(c) = s.try_into_cstr() {
                    check_cstr(st, c, &m, "MutBumpString::into_cstr");
                }
            }
            _ => {
                let x = s.into_str();
                if x != m.as_str() {
                    st.fail("C09/conversion", format!("MutBumpString::into_str: {x:?} != {m:?}"));
                }
            }
        }
        // helper: alloc_fmt_mut / alloc_cstr_fmt_mut
        let t = text(&r0, 9, r0.b(9) as usize % 6);
        if let Ok(b) = arena.try_alloc_fmt_mut(format_args!("{t}|{}", r0.u16(10))) {
            let exp = format!("{t}|{}", r0.u16(10));
            if &*b != exp.as_str() {
                st.fail("C09/fmt", format!("alloc_fmt_mut: {:?} != {exp:?}", &*b));
            }
        }
        if let Ok(c) = arena.try_alloc_cstr_fmt_mut(format_args!("{t}|{}", r0.u16(10))) {
            check_cstr(st, c, &format!("{t}|{}", r0.u16(10)), "alloc_cstr_fmt_mut");
        }
    }
}

pub fn run_case_impl(split_mix: bool, faulty_stage: bool, bytes: &[u8], want_desc: bool) -> CaseResult {
    let (hb, rest) = bytes.split_at(bytes.len().min(16));
    let b = |i: usize| hb.get(i).copied().unwrap_or(0);
    let recs: Vec<&[u8]> = rest.chunks(16).collect();
    let ma = 1usize << (b(1) % 5);
    // C07 stage: a fault plan from the header (as in engine B)
    let plan = if faulty_stage && b(5) % 8 != 0 {
        match b(5) / 8 % 4 {
            0 | 1 => FaultPlan { mask: 0, from: Some(1 + b(6) as u64 % 3), enabled: true },
            _ => FaultPlan { mask: 1u64 << (1 + b(6) % 4), from: None, enabled: true },
        }
    } else {
        FaultPlan::default()
    };
    let faulty = plan.enabled;
    talloc::with_ctx(0, |c| c.reset(if b(8) % 3 == 0 { GrantPolicy::Plus(1 + b(9) as usize % 40) } else { GrantPolicy::Exact }, u64::from_le_bytes([b(8), b(9), b(10), b(11), b(12), b(13), b(14), b(15)]), plan));
    let mut st = St {
        recs,
        pos: 0,
        fails: vec![],
        classes: BTreeSet::new(),
        log: if want_desc { Some(String::new()) } else { None },
        hash: 0xcbf29ce484222325,
        ops: 0,
        nops: 0,
        stop: false,
        split_mix: split_mix,
    };
    let mutmode = !split_mix && b(2) % 4 == 0;
    st.note(|| format!("allocator [{}] min_align {ma} mode {} plan {plan:?}", super::describe(b(0)), if mutmode { "MutBumpString" } else { "shared" }));
    let first = b(3);
    let r = catch_unwind(AssertUnwindSafe(|| {
        super::with_arena(b(0), ma, b(4), &mut |arena, _info: Info| {
            if mutmode {
                run_mut(&mut st, arena, faulty);
            } else {
                run_shared(&mut st, &*arena, first, faulty);
            }
        })
    }));
    if let Err(p) = r {
        st.fail("panic/engine", format!("unexpected panic: {}", panic_message(&p)));
    }
    let errs = with_ctx(0, |c| std::mem::take(&mut c.errors));
    for e in errs {
        let id = e.split(':').next().unwrap_or("C05/ledger").to_string();
        st.fail(&id, e.clone());
    }
    let nontrivial = st.classes.contains("non_boundary_index") || st.classes.contains("multibyte_at_edge") || st.classes.contains("malformed_input");
    CaseResult {
        report: CaseReport {
            nontrivial,
            hash: st.hash,
            classes: st.classes.iter().copied().collect(),
            ops: st.ops,
            nops: st.nops,
            desc: st.log.take(),
            counters: vec![("operations", st.ops)],
        },
        failures: st.fails,
    }
}

// silence unused import warnings for traits used only through method calls
#[allow(unused)]
fn _traits<'a, A: BumpAllocatorTypedScope<'a>, B: MutBumpAllocatorTypedScope<'a>>() {}
