//! Small types shared by all engines: settings info, statistics snapshots, record decoding.

use bump_scope::settings::BumpAllocatorSettings;
use bump_scope::stats::{AnyStats, Stats};

#[derive(Clone, Copy, Debug, PartialEq, Eq)]
pub struct Info {
    pub up: bool,
    pub min_align: usize,
    pub ga: bool,
    pub de: bool,
    pub sh: bool,
    pub mcs: usize,
    pub shape: &'static str,
    pub header_size: usize,
    pub header_align: usize,
    /// expensive generic operations are only instantiated for the family's home alignment
    pub full: bool,
}


#[derive(Clone, Copy, Debug, PartialEq, Eq, Default)]
#[repr(align(32))]
pub struct Al32(pub [u8; 32]);


#[derive(Clone, Debug, PartialEq, Eq)]
pub struct ChunkSnap {
    pub header: usize,
    pub chunk_start: usize,
    pub chunk_end: usize,
    pub content_start: usize,
    pub content_end: usize,
    pub pos: usize,
    pub size: usize,
    pub capacity: usize,
    pub allocated: usize,
    pub remaining: usize,
    pub prev: Option<usize>,
    pub next: Option<usize>,
}

#[derive(Clone, Debug, PartialEq, Eq, Default)]
pub struct StatsSnap {
    /// small_to_big()
    pub chunks: Vec<ChunkSnap>,
    /// big_to_small()
    pub chunks_rev: Vec<ChunkSnap>,
    /// current_chunk() as chunk_start
    pub current: Option<ChunkSnap>,
    pub count: usize,
    pub size: usize,
    pub capacity: usize,
    pub allocated: usize,
    pub remaining: usize,
}


fn chunk_snap<A, S: BumpAllocatorSettings>(c: bump_scope::stats::Chunk<'_, A, S>) -> ChunkSnap {
    ChunkSnap {
        header: if S::UP { c.chunk_start().as_ptr() as usize } else { c.content_end().as_ptr() as usize },
        chunk_start: c.chunk_start().as_ptr() as usize,
        chunk_end: c.chunk_end().as_ptr() as usize,
        content_start: c.content_start().as_ptr() as usize,
        content_end: c.content_end().as_ptr() as usize,
        pos: c.bump_position().as_ptr() as usize,
        size: c.size(),
        capacity: c.capacity(),
        allocated: c.allocated(),
        remaining: c.remaining(),
        prev: c.prev().map(|p| p.chunk_start().as_ptr() as usize),
        next: c.next().map(|p| p.chunk_start().as_ptr() as usize),
    }
}

fn any_chunk_snap(c: bump_scope::stats::AnyChunk<'_>, up: bool) -> ChunkSnap {
    ChunkSnap {
        header: if up { c.chunk_start().as_ptr() as usize } else { c.content_end().as_ptr() as usize },
        chunk_start: c.chunk_start().as_ptr() as usize,
        chunk_end: c.chunk_end().as_ptr() as usize,
        content_start: c.content_start().as_ptr() as usize,
        content_end: c.content_end().as_ptr() as usize,
        pos: c.bump_position().as_ptr() as usize,
        size: c.size(),
        capacity: c.capacity(),
        allocated: c.allocated(),
        remaining: c.remaining(),
        prev: c.prev().map(|p| p.chunk_start().as_ptr() as usize),
        next: c.next().map(|p| p.chunk_start().as_ptr() as usize),
    }
}

pub fn snap_stats<A, S: BumpAllocatorSettings>(s: Stats<'_, A, S>) -> StatsSnap {
    StatsSnap {
        chunks: s.small_to_big().map(chunk_snap).collect(),
        chunks_rev: s.big_to_small().map(chunk_snap).collect(),
        current: s.current_chunk().map(chunk_snap),
        count: s.count(),
        size: s.size(),
        capacity: s.capacity(),
        allocated: s.allocated(),
        remaining: s.remaining(),
    }
}

pub fn snap_any(s: AnyStats<'_>, up: bool) -> StatsSnap {
    StatsSnap {
        chunks: s.small_to_big().map(|c| any_chunk_snap(c, up)).collect(),
        chunks_rev: s.big_to_small().map(|c| any_chunk_snap(c, up)).collect(),
        current: s.current_chunk().map(|c| any_chunk_snap(c, up)),
        count: s.count(),
        size: s.size(),
        capacity: s.capacity(),
        allocated: s.allocated(),
        remaining: s.remaining(),
    }
}


/// deterministic value generator for typed values
pub fn val_bytes(seed: u64, i: usize) -> u8 {
    let mut x = seed ^ (i as u64).wrapping_mul(0x9E3779B97F4A7C15) ^ 0xD6E8FEB86659FD93;
    x ^= x >> 32;
    x = x.wrapping_mul(0xD6E8FEB86659FD93);
    x ^= x >> 29;
    (x as u8) | 1
}


pub fn text(seed: u64, n: usize) -> String {
    // ASCII without NUL so that C-string helpers keep everything
    (0..n).map(|i| (b'a' + (val_bytes(seed, i) % 26)) as char).collect()
}


pub struct Rec<'a>(pub &'a [u8]);
impl Rec<'_> {
    pub fn b(&self, i: usize) -> u8 {
        self.0.get(i).copied().unwrap_or(0)
    }
    pub fn u16(&self, i: usize) -> usize {
        self.b(i) as usize | (self.b(i + 1) as usize) << 8
    }
    pub fn u32(&self, i: usize) -> usize {
        self.u16(i) | self.u16(i + 2) << 16
    }
    pub fn u64(&self, i: usize) -> u64 {
        self.u32(i) as u64 | (self.u32(i + 4) as u64) << 32
    }
}

/// monotone index mapping (shrinks towards 0)
pub fn pick(raw: usize, len: usize) -> usize {
    debug_assert!(len > 0);
    ((raw & 0xFFFF) * len) >> 16
}

