//! Abnormal termination (DESIGN.md 2.6): a signal handler that saves the current case as the
//! replay file and prints the VIOLATION line; a watchdog that ends a run exceeding its budget
//! with exit code 2 (inconclusive).

use std::sync::atomic::{AtomicBool, AtomicUsize, Ordering};

const MAX_CASE: usize = 1 << 16;

struct CaseSlot {
    len: AtomicUsize,
    buf: std::cell::UnsafeCell<[u8; MAX_CASE]>,
}
unsafe impl Sync for CaseSlot {}

// one slot per thread index (threads register themselves); crash handler dumps the slot of the
// crashing thread (looked up through a thread-local pointer).
const SLOTS: usize = 64;
static SLOT_USED: [AtomicBool; SLOTS] = [const { AtomicBool::new(false) }; SLOTS];
static SLOT_DATA: [CaseSlot; SLOTS] = [const {
    CaseSlot { len: AtomicUsize::new(0), buf: std::cell::UnsafeCell::new([0; MAX_CASE]) }
}; SLOTS];

thread_local! {
    static MY_SLOT: std::cell::Cell<usize> = const { std::cell::Cell::new(usize::MAX) };
}

static mut REPLAY_PATH: [u8; 512] = [0; 512];
static mut VIOLATION_LINE: [u8; 768] = [0; 768];
static VIOLATION_LEN: AtomicUsize = AtomicUsize::new(0);
static INSTALLED: AtomicBool = AtomicBool::new(false);
/// When set, a crash is expected (abort sub-check children); the handler just _exit(134)s.
pub static QUIET_CHILD: AtomicBool = AtomicBool::new(false);

fn my_slot() -> usize {
    MY_SLOT.with(|s| {
        if s.get() == usize::MAX {
            for i in 0..SLOTS {
                if !SLOT_USED[i].swap(true, Ordering::SeqCst) {
                    s.set(i);
                    break;
                }
            }
            if s.get() == usize::MAX {
                s.set(SLOTS - 1);
            }
        }
        s.get()
    })
}

pub fn set_current_case(bytes: &[u8]) {
    let i = my_slot();
    let n = bytes.len().min(MAX_CASE);
    unsafe {
        let dst = SLOT_DATA[i].buf.get() as *mut u8;
        std::ptr::copy_nonoverlapping(bytes.as_ptr(), dst, n);
    }
    SLOT_DATA[i].len.store(n, Ordering::SeqCst);
}

extern "C" fn handler(sig: libc::c_int) {
    unsafe {
        if QUIET_CHILD.load(Ordering::SeqCst) {
            libc::_exit(134);
        }
        // find our slot without touching TLS machinery that may allocate: TLS const-init Cell is fine
        let slot = MY_SLOT.with(|s| s.get());
        let slot = if slot == usize::MAX { 0 } else { slot };
        let len = SLOT_DATA[slot].len.load(Ordering::SeqCst);
        let path = &raw const REPLAY_PATH as *const libc::c_char;
        let fd = libc::open(path, libc::O_WRONLY | libc::O_CREAT | libc::O_TRUNC, 0o644);
        if fd >= 0 {
            let p = SLOT_DATA[slot].buf.get() as *const libc::c_void;
            libc::write(fd, p, len);
            libc::close(fd);
        }
        let l = VIOLATION_LEN.load(Ordering::SeqCst);
        libc::write(1, &raw const VIOLATION_LINE as *const libc::c_void, l);
        let msg = b"crash: fatal signal ";
        libc::write(2, msg.as_ptr() as *const libc::c_void, msg.len());
        let d = [b'0' + (sig / 10) as u8, b'0' + (sig % 10) as u8, b'\n'];
        libc::write(2, d.as_ptr() as *const libc::c_void, 3);
        libc::_exit(1);
    }
}

pub fn install(prop: &str, replay_path: &str) {
    unsafe {
        let p = replay_path.as_bytes();
        let n = p.len().min(510);
        let dst = &raw mut REPLAY_PATH as *mut u8;
        std::ptr::copy_nonoverlapping(p.as_ptr(), dst, n);
        *dst.add(n) = 0;
        let line = format!("VIOLATION property={prop} replay={replay_path}\n");
        let lb = line.as_bytes();
        let ln = lb.len().min(767);
        std::ptr::copy_nonoverlapping(lb.as_ptr(), &raw mut VIOLATION_LINE as *mut u8, ln);
        VIOLATION_LEN.store(ln, Ordering::SeqCst);
        if INSTALLED.swap(true, Ordering::SeqCst) {
            return;
        }
        // alternate stack for the main thread only; worker threads get theirs via install_thread()
        install_thread();
        for sig in [libc::SIGSEGV, libc::SIGBUS, libc::SIGILL, libc::SIGABRT, libc::SIGFPE] {
            let mut sa: libc::sigaction = std::mem::zeroed();
            sa.sa_sigaction = handler as extern "C" fn(libc::c_int) as usize;
            sa.sa_flags = libc::SA_ONSTACK | libc::SA_NODEFER;
            libc::sigemptyset(&mut sa.sa_mask);
            libc::sigaction(sig, &sa, std::ptr::null_mut());
        }
    }
}

pub fn install_thread() {
    unsafe {
        let size = 1 << 16;
        let stack = libc::mmap(
            std::ptr::null_mut(),
            size,
            libc::PROT_READ | libc::PROT_WRITE,
            libc::MAP_PRIVATE | libc::MAP_ANONYMOUS,
            -1,
            0,
        );
        if stack != libc::MAP_FAILED {
            let ss = libc::stack_t { ss_sp: stack, ss_flags: 0, ss_size: size };
            libc::sigaltstack(&ss, std::ptr::null_mut());
        }
    }
    let _ = my_slot();
}

/// Watchdog: exit(2) if the run exceeds `secs`.
pub fn watchdog(secs: u64) {
    std::thread::spawn(move || {
        std::thread::sleep(std::time::Duration::from_secs(secs));
        eprintln!("watchdog: run exceeded {secs}s wall budget: inconclusive");
        unsafe { libc::_exit(2) };
    });
}
