//! Instrumented element types for the collection engines (DESIGN.md C06): per-value drop
//! accounting, self-checking canaries, callback counting with panic injection.

use std::cell::RefCell;

use crate::runner::Marker;

#[derive(Default)]
pub struct Registry {
    /// per id: number of drops
    pub dropped: Vec<u8>,
    pub double_drop: Option<String>,
    pub bad_canary: Option<String>,
    pub zst_live: i64,
    pub zst_created: u64,
    /// callback counter / injection
    pub ticks: u64,
    pub panic_at: Option<u64>,
    pub fired: Option<&'static str>,
    pub inject_in_drop: bool,
}

thread_local! {
    pub static REG: RefCell<Registry> = RefCell::new(Registry::default());
}

pub fn reg_reset(panic_at: Option<u64>, inject_in_drop: bool) {
    REG.with(|r| {
        let mut r = r.borrow_mut();
        *r = Registry::default();
        r.panic_at = panic_at;
        r.inject_in_drop = inject_in_drop;
    });
}

pub fn with_reg<R>(f: impl FnOnce(&mut Registry) -> R) -> R {
    REG.with(|r| f(&mut r.borrow_mut()))
}

/// Count one user-callback invocation; panics (once) at the chosen invocation.
pub fn tick(kind: &'static str) {
    let fire = REG.with(|r| {
        let mut r = r.borrow_mut();
        r.ticks += 1;
        if r.fired.is_none() && r.panic_at == Some(r.ticks) && !std::thread::panicking() {
            r.fired = Some(kind);
            true
        } else {
            false
        }
    });
    if fire {
        std::panic::resume_unwind(Box::new(Marker));
    }
}

const CANARY: u32 = 0x7AC3_ED01;

pub trait Elem: Sized + 'static {
    const NAME: &'static str;
    const ZST: bool;
    fn make(v: u32) -> Self;
    fn val(&self) -> u32;
    /// unique id (0 for zero-sized elements)
    fn id(&self) -> u32;
    fn dup(&self) -> Self;
    /// element types that `map_in_place` accepts as a target for `Self` (size and alignment not above
    /// `Self`'s, or zero-sized), and one that it does not (larger size or alignment; `BumpVec::map` only)
    type MapA: Elem;
    type MapB: Elem;
    type MapC: Elem;
    type MapBig: Elem;
}

fn new_id() -> u32 {
    REG.with(|r| {
        let mut r = r.borrow_mut();
        r.dropped.push(0);
        r.dropped.len() as u32 // ids start at 1
    })
}

fn note_drop(id: u32, canary: u32, what: &str) {
    REG.with(|r| {
        let mut r = r.borrow_mut();
        if canary != CANARY {
            if r.bad_canary.is_none() {
                r.bad_canary = Some(format!("{what}: dropped a value with a corrupted canary {canary:#x} (id {id})"));
            }
            return;
        }
        let i = id as usize;
        if i == 0 || i > r.dropped.len() {
            if r.bad_canary.is_none() {
                r.bad_canary = Some(format!("{what}: dropped a value with an unknown id {id}"));
            }
            return;
        }
        r.dropped[i - 1] = r.dropped[i - 1].saturating_add(1);
        if r.dropped[i - 1] > 1 && r.double_drop.is_none() {
            r.double_drop = Some(format!("{what}: value id {id} dropped {} times", r.dropped[i - 1]));
        }
    });
}

/// 16-byte tracked element
pub struct Tr {
    id: u32,
    v: u32,
    canary: u32,
    _pad: u32,
}

impl Elem for Tr {
    const NAME: &'static str = "Tr";
    const ZST: bool = false;
    fn make(v: u32) -> Self {
        Tr { id: new_id(), v, canary: CANARY, _pad: 0 }
    }
    fn val(&self) -> u32 {
        self.v
    }
    fn id(&self) -> u32 {
        self.id
    }
    fn dup(&self) -> Self {
        Tr::make(self.v)
    }
    type MapA = Tr8;
    type MapB = TrZ;
    type MapC = Tr;
    type MapBig = Tr32;
}
impl Clone for Tr {
    fn clone(&self) -> Self {
        tick("clone");
        Tr::make(self.v)
    }
}
impl PartialEq for Tr {
    fn eq(&self, o: &Self) -> bool {
        self.v == o.v
    }
}
impl Drop for Tr {
    fn drop(&mut self) {
        note_drop(self.id, self.canary, "Tr");
        if REG.with(|r| r.borrow().inject_in_drop) {
            tick("drop");
        }
    }
}

/// over-aligned tracked element (align 32)
#[repr(align(32))]
pub struct Tr32 {
    id: u32,
    v: u32,
    canary: u32,
}
impl Elem for Tr32 {
    const NAME: &'static str = "Tr32";
    const ZST: bool = false;
    fn make(v: u32) -> Self {
        Tr32 { id: new_id(), v, canary: CANARY }
    }
    fn val(&self) -> u32 {
        self.v
    }
    fn id(&self) -> u32 {
        self.id
    }
    fn dup(&self) -> Self {
        Tr32::make(self.v)
    }
    type MapA = Tr;
    type MapB = Tr8;
    type MapC = TrZ;
    type MapBig = Tr32;
}
impl Clone for Tr32 {
    fn clone(&self) -> Self {
        tick("clone");
        Tr32::make(self.v)
    }
}
impl PartialEq for Tr32 {
    fn eq(&self, o: &Self) -> bool {
        self.v == o.v
    }
}
impl Drop for Tr32 {
    fn drop(&mut self) {
        note_drop(self.id, self.canary, "Tr32");
        if REG.with(|r| r.borrow().inject_in_drop) {
            tick("drop");
        }
    }
}

/// zero-sized tracked element: constructions and drops are counted
pub struct TrZ;
impl Elem for TrZ {
    const NAME: &'static str = "TrZ";
    const ZST: bool = true;
    fn make(_v: u32) -> Self {
        REG.with(|r| {
            let mut r = r.borrow_mut();
            r.zst_live += 1;
            r.zst_created += 1;
        });
        TrZ
    }
    fn val(&self) -> u32 {
        0
    }
    fn id(&self) -> u32 {
        0
    }
    fn dup(&self) -> Self {
        TrZ::make(0)
    }
    type MapA = TrZ;
    type MapB = TrZ;
    type MapC = TrZ;
    type MapBig = Tr;
}
impl Clone for TrZ {
    fn clone(&self) -> Self {
        tick("clone");
        TrZ::make(0)
    }
}
impl PartialEq for TrZ {
    fn eq(&self, _o: &Self) -> bool {
        true
    }
}
impl Drop for TrZ {
    fn drop(&mut self) {
        REG.with(|r| r.borrow_mut().zst_live -= 1);
        if REG.with(|r| r.borrow().inject_in_drop) {
            tick("drop");
        }
    }
}

/// 8-byte tracked element (target type of the size-changing maps)
pub struct Tr8 {
    id: u32,
    v: u32,
}
impl Elem for Tr8 {
    const NAME: &'static str = "Tr8";
    const ZST: bool = false;
    fn make(v: u32) -> Self {
        Tr8 { id: new_id(), v }
    }
    fn val(&self) -> u32 {
        self.v
    }
    fn id(&self) -> u32 {
        self.id
    }
    fn dup(&self) -> Self {
        Tr8::make(self.v)
    }
    type MapA = Tr8;
    type MapB = TrZ;
    type MapC = Tr8;
    type MapBig = Tr;
}
impl Drop for Tr8 {
    fn drop(&mut self) {
        note_drop(self.id, CANARY, "Tr8");
        if REG.with(|r| r.borrow().inject_in_drop) {
            tick("drop");
        }
    }
}
