//! Evidence writer (DESIGN.md 2.7): one schema-valid JSON file per property per run.

use std::collections::BTreeMap;
use std::path::PathBuf;

use serde_json::{Value, json};

pub struct Evidence {
    pub property_id: String,
    pub tier: String,
    pub seed: u64,
    pub evaluations: u64,
    pub distinct_nontrivial: u64,
    pub rule: String,
    pub samples: Vec<Value>,
    pub classes: BTreeMap<String, u64>,
    pub extra: BTreeMap<String, Value>,
    pub assumptions: Vec<String>,
    pub wall_s: f64,
    pub violations: u64,
    pub exhaustive: Option<bool>,
}

pub fn verif_dir() -> PathBuf {
    PathBuf::from(std::env::var("VERIF_DIR").unwrap_or_else(|_| "/verif".into()))
}

impl Evidence {
    pub fn write(&self) -> std::io::Result<PathBuf> {
        let dir = verif_dir().join("evidence");
        std::fs::create_dir_all(&dir)?;
        let path = dir.join(format!("{}.json", self.property_id));
        self.write_to(&path)?;
        Ok(path)
    }

    pub fn write_to(&self, path: &std::path::Path) -> std::io::Result<()> {
        let mut coverage = serde_json::Map::new();
        coverage.insert("evaluations".into(), json!(self.evaluations));
        coverage.insert("distinct_nontrivial".into(), json!(self.distinct_nontrivial));
        coverage.insert("rule".into(), json!(self.rule));
        coverage.insert("samples".into(), Value::Array(self.samples.clone()));
        coverage.insert("classes".into(), json!(self.classes));
        if let Some(e) = self.exhaustive {
            coverage.insert("exhaustive".into(), json!(e));
        }
        for (k, v) in &self.extra {
            coverage.insert(k.clone(), v.clone());
        }
        let doc = json!({
            "property_id": self.property_id,
            "tier": self.tier,
            "seed": self.seed,
            "level": "exploration",
            "coverage": Value::Object(coverage),
            "assumptions": self.assumptions,
            "wall_s": self.wall_s,
            "violations": self.violations,
        });
        let tmp = path.with_extension("tmp");
        std::fs::write(&tmp, serde_json::to_string_pretty(&doc).unwrap())?;
        std::fs::rename(&tmp, path)?;
        Ok(())
    }
}
