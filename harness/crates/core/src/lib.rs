//! bsv-core: runner, crash handling, evidence, instrumented allocators and element types,
//! shadow-model primitives and the pure-function engine (see /verif/DESIGN.md).
pub mod common;
pub mod crash;
pub mod elem;
pub mod evidence;
pub mod model;
pub mod pure;
pub mod runner;
pub mod talloc;
