//! Shadow model of the arena (DESIGN.md 2.5): live blocks with byte patterns, maintained from
//! return values only, plus the chunk map derived from the base-allocator ledger.

use std::collections::BTreeMap;

use crate::common::Info;
use crate::talloc::{self, Grant};

#[derive(Clone, Copy, Debug, PartialEq, Eq)]
pub enum Origin {
    Allocate,
    Zeroed,
    Grow,
    Shrink,
    Split,
    Prepared,
    Typed,
    Boxed,
    VecBuf,
    Foreign,
}

#[derive(Clone, Debug)]
pub struct Block {
    pub id: u32,
    pub addr: usize,
    /// extent used for disjointness / containment
    pub size: usize,
    /// prefix that carries the byte pattern
    pub init: usize,
    /// alignment the block was requested with (the layout to hand back)
    pub align: usize,
    pub seed: u64,
    /// creation sequence number (scope / checkpoint lifetimes)
    pub seq: u64,
    pub origin: Origin,
}

#[inline]
pub fn pat(seed: u64, i: usize) -> u8 {
    let mut x = seed.wrapping_add((i as u64).wrapping_mul(0x9E3779B97F4A7C15));
    x ^= x >> 31;
    x = x.wrapping_mul(0xBF58476D1CE4E5B9);
    x ^= x >> 27;
    let b = x as u8;
    // never 0x00, 0xCD (fresh), 0xDD (poison), 0xA5 (canary)
    match b {
        0x00 | 0xCD | 0xDD | 0xA5 => b ^ 0x11,
        _ => b,
    }
}

pub fn write_pattern(addr: usize, len: usize, seed: u64) {
    let p = addr as *mut u8;
    for i in 0..len {
        unsafe { p.add(i).write(pat(seed, i)) };
    }
}

/// returns the first mismatching index
pub fn check_pattern(addr: usize, len: usize, seed: u64) -> Option<usize> {
    let p = addr as *const u8;
    for i in 0..len {
        if unsafe { p.add(i).read() } != pat(seed, i) {
            return Some(i);
        }
    }
    None
}

#[derive(Clone, Debug)]
pub struct ChunkRange {
    pub grant_ptr: usize,
    pub granted: usize,
    pub used: usize,
    pub header: usize,
    pub content_start: usize,
    pub content_end: usize,
    pub call: u64,
}

/// Chunk map derived from the ledger and the mirror header layout, *without asking Stats*.
pub fn chunk_of_grant(g: &Grant, info: &Info) -> ChunkRange {
    let hs = info.header_size;
    let ha = info.header_align.max(16);
    if info.up {
        let used = g.granted / 16 * 16;
        ChunkRange {
            grant_ptr: g.ptr,
            granted: g.granted,
            used,
            header: g.ptr,
            content_start: g.ptr + hs,
            content_end: g.ptr + used,
            call: g.call,
        }
    } else {
        let used = g.granted / ha * ha;
        ChunkRange {
            grant_ptr: g.ptr,
            granted: g.granted,
            used,
            header: g.ptr + used - hs,
            content_start: g.ptr,
            content_end: g.ptr + used - hs,
            call: g.call,
        }
    }
}

pub fn chunk_map(ctx: usize, info: &Info) -> Vec<ChunkRange> {
    talloc::with_ctx(ctx, |c| c.live_grants().map(|g| chunk_of_grant(g, info)).collect())
}

#[derive(Default)]
pub struct Model {
    /// non-zero-sized live blocks keyed by address
    pub blocks: BTreeMap<usize, Block>,
    /// zero-sized live blocks
    pub zsts: Vec<Block>,
    /// blocks of the second ("foreign") arena
    pub foreign: Vec<Block>,
    pub seq: u64,
    pub next_id: u32,
    pub live_bytes: usize,
    pub max_live: usize,
}

impl Model {
    pub fn next_seq(&mut self) -> u64 {
        self.seq += 1;
        self.seq
    }

    pub fn new_block(&mut self, addr: usize, size: usize, init: usize, align: usize, origin: Origin, seed: u64) -> Block {
        self.next_id += 1;
        let seq = self.next_seq();
        Block { id: self.next_id, addr, size, init, align, seed, seq, origin }
    }

    /// first live block sharing a byte with [addr, addr+size)
    pub fn overlap(&self, addr: usize, size: usize) -> Option<&Block> {
        if size == 0 {
            return None;
        }
        if let Some((_, b)) = self.blocks.range(..addr + size).next_back() {
            if b.addr + b.size > addr {
                return Some(b);
            }
        }
        None
    }

    pub fn insert(&mut self, b: Block) {
        if b.size == 0 {
            self.zsts.push(b);
        } else {
            self.live_bytes += b.size;
            self.blocks.insert(b.addr, b);
        }
        let n = self.blocks.len() + self.zsts.len();
        if n > self.max_live {
            self.max_live = n;
        }
    }

    pub fn remove_addr(&mut self, addr: usize) -> Option<Block> {
        let b = self.blocks.remove(&addr)?;
        self.live_bytes -= b.size;
        Some(b)
    }

    pub fn remove_id(&mut self, id: u32) -> Option<Block> {
        if let Some(addr) = self.blocks.values().find(|b| b.id == id).map(|b| b.addr) {
            return self.remove_addr(addr);
        }
        if let Some(i) = self.zsts.iter().position(|b| b.id == id) {
            return Some(self.zsts.remove(i));
        }
        None
    }

    pub fn get_id(&self, id: u32) -> Option<&Block> {
        self.blocks.values().find(|b| b.id == id).or_else(|| self.zsts.iter().find(|b| b.id == id))
    }

    /// all live blocks (sized first, by address, then zero-sized), for index selection
    pub fn nth(&self, i: usize) -> Option<&Block> {
        let n = self.blocks.len();
        if i < n { self.blocks.values().nth(i) } else { self.zsts.get(i - n) }
    }

    pub fn count(&self) -> usize {
        self.blocks.len() + self.zsts.len()
    }

    /// kill every block created at or after `seq`
    pub fn kill_since(&mut self, seq: u64) -> usize {
        let dead: Vec<usize> = self.blocks.values().filter(|b| b.seq >= seq).map(|b| b.addr).collect();
        let n = dead.len();
        for a in dead {
            self.remove_addr(a);
        }
        let z = self.zsts.len();
        self.zsts.retain(|b| b.seq < seq);
        n + (z - self.zsts.len())
    }

    pub fn kill_all(&mut self) {
        self.blocks.clear();
        self.zsts.clear();
        self.live_bytes = 0;
    }

    /// verify the patterns of all live blocks (main and foreign)
    pub fn verify(&self) -> Option<String> {
        for b in self.blocks.values().chain(self.foreign.iter()) {
            if let Some(i) = check_pattern(b.addr, b.init, b.seed) {
                let got = unsafe { ((b.addr + i) as *const u8).read() };
                return Some(format!(
                    "byte {i} of live block #{} ({:?}, addr {:#x}, size {}, align {}) is {:#04x}, expected {:#04x}",
                    b.id,
                    b.origin,
                    b.addr,
                    b.size,
                    b.align,
                    got,
                    pat(b.seed, i)
                ));
            }
        }
        None
    }

    /// signature of the decode-relevant state (for the C03 replay rule)
    pub fn signature(&self) -> Vec<(usize, usize, usize)> {
        let mut v: Vec<(usize, usize, usize)> = self.blocks.values().map(|b| (b.addr, b.size, b.align)).collect();
        v.extend(self.zsts.iter().map(|b| (b.addr, 0, b.align)));
        v.extend(self.foreign.iter().map(|b| (b.addr, b.size, b.align)));
        v
    }
}
