//! Engine D (DESIGN.md C11, C12a): the pure bump-pointer and chunk-size functions of the tree,
//! included by path so that the code under test is the code in /repo's working tree, compared
//! with a wide-integer (u128 / i128) reference specification.

#![allow(dead_code, unused_imports, clippy::all)]

use std::alloc::Layout;
use std::panic::{AssertUnwindSafe, catch_unwind};

use crate::runner::{CaseReport, CaseResult, Engine, Failure, fnv};

#[path = "/repo/src/bumping.rs"]
#[allow(unexpected_cfgs, unfulfilled_lint_expectations, unknown_lints)]
mod bumping;

#[path = "/repo/src/chunk/size_config.rs"]
#[allow(unexpected_cfgs, unfulfilled_lint_expectations, unknown_lints)]
mod size_config;

use bumping::{BumpProps, bump_down, bump_prepare_down, bump_prepare_up, bump_up};
use size_config::ChunkSizeConfig;

pub struct Cur<'a> {
    b: &'a [u8],
    i: usize,
}
impl<'a> Cur<'a> {
    pub fn new(b: &'a [u8]) -> Self {
        Cur { b, i: 0 }
    }
    pub fn u8(&mut self) -> u8 {
        let v = self.b.get(self.i).copied().unwrap_or(0);
        self.i += 1;
        v
    }
    pub fn u16(&mut self) -> u16 {
        self.u8() as u16 | ((self.u8() as u16) << 8)
    }
    pub fn u32(&mut self) -> u32 {
        self.u16() as u32 | ((self.u16() as u32) << 16)
    }
    pub fn u64(&mut self) -> u64 {
        self.u32() as u64 | ((self.u32() as u64) << 32)
    }
}

const TOP: u128 = usize::MAX as u128;
const IMAX: u128 = isize::MAX as u128;

fn up_align128(a: u128, al: u128) -> u128 {
    (a + al - 1) / al * al
}
fn down_align128(a: u128, al: u128) -> u128 {
    a / al * al
}

#[derive(Clone, Copy, Debug)]
struct Input {
    up: bool,
    start: usize,
    end: usize,
    size: usize,
    align: usize,
    min_align: usize,
}

fn hints(size: usize, align: usize) -> Vec<(bool, bool, bool)> {
    let mut v = Vec::new();
    for aic in [false, true] {
        for sic in [false, true] {
            if sic && !aic {
                continue;
            }
            for m in [false, true] {
                if m && size % align != 0 {
                    continue;
                }
                v.push((aic, sic, m));
            }
        }
    }
    v
}

fn props(i: &Input, h: (bool, bool, bool)) -> BumpProps {
    BumpProps {
        start: i.start,
        end: i.end,
        min_align: i.min_align,
        layout: Layout::from_size_align(i.size, i.align).unwrap(),
        align_is_const: h.0,
        size_is_const: h.1,
        size_is_multiple_of_align: h.2,
    }
}

/// reference: Some((ptr, min_new_pos)) when the request fits
fn spec_up(i: &Input) -> Option<(u128, u128)> {
    if i.start > i.end {
        return None; // dummy range
    }
    let p = up_align128(i.start as u128, i.align as u128);
    if p + i.size as u128 <= i.end as u128 { Some((p, p + i.size as u128)) } else { None }
}
fn spec_down(i: &Input) -> Option<u128> {
    if i.start > i.end {
        return None;
    }
    let e = i.end as u128;
    if (i.size as u128) > e {
        return None;
    }
    let al = i.align.max(i.min_align) as u128;
    let p = down_align128(e - i.size as u128, al);
    if p >= i.start as u128 { Some(p) } else { None }
}

fn check_input(i: &Input, fails: &mut Vec<Failure>, checks: &mut u64) -> (bool, bool) {
    let fail = |fails: &mut Vec<Failure>, id: &str, msg: String| {
        if !fails.iter().any(|f| f.oracle == id) {
            fails.push(Failure { oracle: id.to_string(), msg });
        }
    };
    let hs = hints(i.size, i.align);
    let mut fits_any = false;
    if i.up {
        let spec = spec_up(i);
        let mut base: Option<Option<(usize, usize)>> = None;
        for h in &hs {
            *checks += 1;
            let r = catch_unwind(AssertUnwindSafe(|| bump_up(props(i, *h)).map(|b| (b.ptr, b.new_pos))));
            let r = match r {
                Ok(r) => r,
                Err(p) => {
                    fail(fails, "C11/panic", format!("bump_up panicked on {i:?} hints {h:?}: {}", crate::runner::panic_message(&p)));
                    continue;
                }
            };
            match (spec, r) {
                (None, Some(got)) => fail(fails, "C11/fits-iff", format!("bump_up returned {got:?} but no aligned block fits: {i:?} hints {h:?}")),
                (Some(s), None) => fail(fails, "C11/fits-iff", format!("bump_up returned None but block at {:#x} fits: {i:?} hints {h:?}", s.0)),
                (Some((p, e)), Some((ptr, np))) => {
                    fits_any = true;
                    if ptr as u128 != p {
                        fail(fails, "C11/nearest", format!("bump_up ptr {ptr:#x} != nearest aligned {p:#x}: {i:?} hints {h:?}"));
                    }
                    if ptr % i.align != 0 || ptr < i.start || (ptr as u128 + i.size as u128) > i.end as u128 {
                        fail(fails, "C11/inside", format!("bump_up ptr {ptr:#x} misaligned/outside: {i:?} hints {h:?}"));
                    }
                    if (np as u128) < e || np > i.end || np % i.min_align != 0 {
                        fail(fails, "C11/new-pos", format!("bump_up new_pos {np:#x} invalid (block end {e:#x}): {i:?} hints {h:?}"));
                    }
                }
                (None, None) => {}
            }
            match base {
                None => base = Some(r),
                Some(b) => {
                    if b != r {
                        fail(fails, "C11/hint-independence", format!("bump_up differs between hint vectors: {b:?} vs {r:?} at {h:?}: {i:?}"));
                    }
                }
            }
        }
        if i.size % i.align == 0 {
            let mut pbase: Option<Option<(usize, usize)>> = None;
            for h in &hs {
                *checks += 1;
                let r = catch_unwind(AssertUnwindSafe(|| bump_prepare_up(props(i, *h)).map(|r| (r.start, r.end))));
                let r = match r {
                    Ok(r) => r,
                    Err(p) => {
                        fail(fails, "C11/panic", format!("bump_prepare_up panicked on {i:?} hints {h:?}: {}", crate::runner::panic_message(&p)));
                        continue;
                    }
                };
                match (spec, r) {
                    (None, Some(got)) => fail(fails, "C11/prepare-fits-iff", format!("bump_prepare_up returned {got:?} but nothing fits: {i:?} {h:?}")),
                    (Some(_), None) => fail(fails, "C11/prepare-fits-iff", format!("bump_prepare_up returned None but request fits: {i:?} {h:?}")),
                    (Some((p, _)), Some((s, e))) => {
                        let emax = down_align128(i.end as u128, i.align as u128);
                        if s as u128 != p || e as u128 != emax {
                            fail(fails, "C11/prepare-maximal", format!("bump_prepare_up range {s:#x}..{e:#x} != maximal {p:#x}..{emax:#x}: {i:?} {h:?}"));
                        }
                        if e < s || e - s < i.size || s < i.start || e > i.end || s % i.align != 0 || e % i.align != 0 {
                            fail(fails, "C11/prepare-range", format!("bump_prepare_up range {s:#x}..{e:#x} invalid: {i:?} {h:?}"));
                        }
                    }
                    (None, None) => {}
                }
                match pbase {
                    None => pbase = Some(r),
                    Some(b) => {
                        if b != r {
                            fail(fails, "C11/hint-independence", format!("bump_prepare_up differs between hint vectors: {b:?} vs {r:?} at {h:?}: {i:?}"));
                        }
                    }
                }
            }
        }
    } else {
        let spec = spec_down(i);
        let mut base: Option<Option<usize>> = None;
        for h in &hs {
            *checks += 1;
            let r = catch_unwind(AssertUnwindSafe(|| bump_down(props(i, *h))));
            let r = match r {
                Ok(r) => r,
                Err(p) => {
                    fail(fails, "C11/panic", format!("bump_down panicked on {i:?} hints {h:?}: {}", crate::runner::panic_message(&p)));
                    continue;
                }
            };
            match (spec, r) {
                (None, Some(got)) => fail(fails, "C11/fits-iff", format!("bump_down returned {got:#x} but no aligned block fits: {i:?} hints {h:?}")),
                (Some(s), None) => fail(fails, "C11/fits-iff", format!("bump_down returned None but block at {s:#x} fits: {i:?} hints {h:?}")),
                (Some(p), Some(ptr)) => {
                    fits_any = true;
                    if ptr as u128 != p {
                        fail(fails, "C11/nearest", format!("bump_down ptr {ptr:#x} != nearest aligned {p:#x}: {i:?} hints {h:?}"));
                    }
                    if ptr % i.align != 0 || ptr % i.min_align != 0 || ptr < i.start || (ptr as u128 + i.size as u128) > i.end as u128 {
                        fail(fails, "C11/inside", format!("bump_down ptr {ptr:#x} misaligned/outside: {i:?} hints {h:?}"));
                    }
                }
                (None, None) => {}
            }
            match base {
                None => base = Some(r),
                Some(b) => {
                    if b != r {
                        fail(fails, "C11/hint-independence", format!("bump_down differs between hint vectors: {b:?} vs {r:?} at {h:?}: {i:?}"));
                    }
                }
            }
        }
        if i.size % i.align == 0 {
            // prepare_down: exists a block aligned to `align` (min_align plays no role for the range)
            let fits = if i.start > i.end {
                None
            } else {
                let e = down_align128(i.end as u128, i.align as u128);
                let s = up_align128(i.start as u128, i.align as u128);
                if e >= i.size as u128 && e - i.size as u128 >= i.start as u128 { Some((s, e)) } else { None }
            };
            let mut pbase: Option<Option<(usize, usize)>> = None;
            for h in &hs {
                *checks += 1;
                let r = catch_unwind(AssertUnwindSafe(|| bump_prepare_down(props(i, *h)).map(|r| (r.start, r.end))));
                let r = match r {
                    Ok(r) => r,
                    Err(p) => {
                        fail(fails, "C11/panic", format!("bump_prepare_down panicked on {i:?} hints {h:?}: {}", crate::runner::panic_message(&p)));
                        continue;
                    }
                };
                match (fits, r) {
                    (None, Some(got)) => fail(fails, "C11/prepare-fits-iff", format!("bump_prepare_down returned {got:?} but nothing fits: {i:?} {h:?}")),
                    (Some(_), None) => fail(fails, "C11/prepare-fits-iff", format!("bump_prepare_down returned None but request fits: {i:?} {h:?}")),
                    (Some((ms, me)), Some((s, e))) => {
                        if s as u128 != ms || e as u128 != me {
                            fail(fails, "C11/prepare-maximal", format!("bump_prepare_down range {s:#x}..{e:#x} != maximal {ms:#x}..{me:#x}: {i:?} {h:?}"));
                        }
                        if e < s || e - s < i.size || s < i.start || e > i.end || s % i.align != 0 || e % i.align != 0 {
                            fail(fails, "C11/prepare-range", format!("bump_prepare_down range {s:#x}..{e:#x} invalid: {i:?} {h:?}"));
                        }
                    }
                    (None, None) => {}
                }
                match pbase {
                    None => pbase = Some(r),
                    Some(b) => {
                        if b != r {
                            fail(fails, "C11/hint-independence", format!("bump_prepare_down differs between hint vectors: {b:?} vs {r:?} at {h:?}: {i:?}"));
                        }
                    }
                }
            }
        }
    }
    let spec_fits = if i.up { spec_up(i).is_some() } else { spec_down(i).is_some() };
    (spec_fits, fits_any)
}

fn valid_layout(size: usize, align: usize) -> bool {
    Layout::from_size_align(size, align).is_ok()
}

/// Build a valid input from bytes (construction, no rejection).
fn gen_input(c: &mut Cur) -> Input {
    let up = c.u8() & 1 == 1;
    let min_align = 1usize << (c.u8() % 5);
    let region = c.u8() % 8;
    let a_exp = {
        let b = c.u8();
        match b % 16 {
            0..=8 => (b / 16) as u32 % 6,   // 1..32
            9..=12 => (b / 16) as u32 % 13, // 1..4096
            13 | 14 => (b / 16) as u32 + 13, // 2^13..2^28
            _ => [29u32, 30, 40, 62, 47, 32, 20, 16][(b / 16) as usize % 8],
        }
    };
    let align = 1usize << a_exp;
    let span_kind = c.u8();
    let span_raw = c.u64();
    let span: u128 = match span_kind % 10 {
        0 => 0,
        1 => (span_raw % 65) as u128,
        2 | 3 => (span_raw % 4097) as u128,
        4 | 5 => (span_raw % (1 << 20)) as u128,
        6 => (span_raw % (1u64 << 40)) as u128,
        7 => IMAX - (span_raw % 65536) as u128,
        8 => (align as u128).saturating_mul(2).min(IMAX) + (span_raw % 64) as u128 - 32u128.min((align as u128) * 2),
        _ => (span_raw as u128) % (IMAX + 1),
    };
    let span = span.min(IMAX);
    let base_raw = c.u64();
    let dummy = region == 7 && span_kind % 4 == 0;
    // choose the 16-aligned anchor (end for up, start for down)
    let (start, end): (usize, usize);
    if dummy {
        // start == end + 16, both 16-aligned
        let e = match base_raw % 3 {
            0 => 16 + (base_raw as usize % 4096) / 16 * 16,
            1 => (usize::MAX - 31 - (base_raw as usize % 65536)) / 16 * 16,
            _ => ((base_raw as usize) % (1usize << 47)).max(16) / 16 * 16,
        };
        start = e + 16;
        end = e;
    } else {
        // pick low address of the range
        let lo128: u128 = match region {
            0 => 16,
            1 => 16 + (base_raw % 4096) as u128,
            2 | 3 | 4 => 0x1_0000 + (base_raw % (1u64 << 47)) as u128,
            5 => (TOP - 15).saturating_sub(span).saturating_sub(match (base_raw >> 20) % 3 {
                0 => 0,
                1 => (base_raw % 256) as u128,
                _ => (base_raw % 65536) as u128,
            }),
            6 => {
                // align-related: put low just below / above a multiple of align
                let k = (base_raw % 1024) as u128 + 1;
                (k * align as u128).saturating_add((c.u8() as u128) % 33).saturating_sub(16).max(16)
            }
            _ => 0x1_0000 + (base_raw % (1u64 << 40)) as u128,
        };
        let mut lo = lo128.min(TOP - 15 - span.min(TOP - 31)).max(16);
        let mut hi = lo + span;
        if hi > TOP - 15 {
            hi = TOP - 15;
        }
        if up {
            // start % min_align == 0, end % 16 == 0
            hi = down_align128(hi, 16);
            lo = down_align128(lo, min_align as u128).max(min_align as u128);
            if lo > hi {
                lo = hi;
            }
        } else {
            lo = down_align128(lo, 16).max(16);
            hi = down_align128(hi, min_align as u128);
            if hi < lo {
                hi = lo;
            }
        }
        if hi - lo > IMAX {
            hi = lo + down_align128(IMAX, 16);
        }
        start = lo as usize;
        end = hi as usize;
    }
    let remaining = if start <= end { (end - start) as u128 } else { 0 };
    let size_kind = c.u8();
    let size_raw = c.u64();
    let mut size: u128 = match size_kind % 12 {
        0 => 0,
        1 => (size_raw % 16) as u128,
        2 => 16,
        3 => remaining,
        4 => remaining.saturating_sub((size_raw % 33) as u128),
        5 => remaining + (size_raw % 33) as u128,
        6 => remaining.saturating_sub(align as u128).saturating_add((size_raw % 65) as u128).saturating_sub(32),
        7 => (align as u128) * ((size_raw % 5) as u128),
        8 => IMAX - (size_raw % 4096) as u128,
        9 => (size_raw % 4096) as u128,
        10 => (size_raw as u128) % (IMAX + 1),
        _ => (remaining / 2).saturating_add((size_raw % 17) as u128),
    };
    if size_kind & 0x80 != 0 && align as u128 <= IMAX {
        size = down_align128(size, align as u128);
    }
    // Layout validity: size rounded up to align must not exceed isize::MAX
    let max_size = IMAX - (align as u128 - 1);
    if size > max_size {
        size = max_size;
    }
    Input { up, start, end, size: size as usize, align, min_align }
}

pub struct PureBump;

impl Engine for PureBump {
    fn name(&self) -> &'static str {
        "D/pure-bump"
    }
    fn max_records(&self) -> usize {
        0
    }
    fn header_len(&self) -> usize {
        40
    }
    fn rule(&self) -> String {
        "generator: piecewise start/end (next to 0, ordinary heap, within 2^16 of usize::MAX, dummy range start==end+16), spans 0..isize::MAX, \
         sizes around 0/16/remaining+-32/align multiples/isize::MAX, alignments 2^0..2^62, min_align 1..16, aligned per the functions' documented \
         preconditions; each case evaluates the input and its size-1/size+1 neighbours under every truthful hint vector for bump_up|bump_down and \
         the prepare variant. non-trivial: range within 4096 of either end of the address space, or free space within +-align of the request, or \
         fits/does-not-fit verdict flips between the input and a one-byte neighbour; distinct by input tuple"
            .into()
    }
    fn required_classes(&self) -> Vec<(&'static str, f64)> {
        vec![("fits", 0.15), ("does_not_fit", 0.15), ("near_top", 0.03), ("near_zero", 0.03), ("dummy", 0.005), ("flip_neighbour", 0.03), ("prepare_checked", 0.1)]
    }
    fn assumptions(&self) -> Vec<String> {
        vec![
            "64-bit usize".into(),
            "inputs satisfy BumpProps::debug_assert_valid (the preconditions asserted by src/bumping.rs)".into(),
            "size_is_const implies align_is_const (stated in bump_down's comment)".into(),
        ]
    }
    fn run_case(&self, bytes: &[u8], want_desc: bool) -> CaseResult {
        let mut c = Cur::new(bytes);
        let i = gen_input(&mut c);
        let mut fails = Vec::new();
        let mut checks = 0u64;
        let mut classes: Vec<&'static str> = Vec::new();
        let (fits, _) = check_input(&i, &mut fails, &mut checks);
        let mut flip = false;
        for d in [-1i64, 1] {
            let ns = i.size as i128 + d as i128;
            if ns < 0 || !valid_layout(ns as usize, i.align) {
                continue;
            }
            let n = Input { size: ns as usize, ..i };
            let (nf, _) = check_input(&n, &mut fails, &mut checks);
            if nf != fits {
                flip = true;
            }
        }
        let dummy = i.start > i.end;
        let near_top = i.end as u128 >= TOP - 4096 || i.start as u128 >= TOP - 4096;
        let near_zero = i.start <= 4096 + 16;
        let remaining = if dummy { 0 } else { (i.end - i.start) as u128 };
        let close = {
            let need = i.size as u128;
            let d = if remaining > need { remaining - need } else { need - remaining };
            d <= i.align as u128
        };
        classes.push(if i.up { "up" } else { "down" });
        classes.push(if fits { "fits" } else { "does_not_fit" });
        if dummy {
            classes.push("dummy");
        }
        if near_top {
            classes.push("near_top");
        }
        if near_zero {
            classes.push("near_zero");
        }
        if flip {
            classes.push("flip_neighbour");
        }
        if close {
            classes.push("close_to_request");
        }
        if i.align > 16 {
            classes.push("align_gt_16");
        }
        if i.size % i.align == 0 {
            classes.push("prepare_checked");
        }
        if i.size == 0 {
            classes.push("size_zero");
        }
        let nontrivial = near_top || near_zero || close || flip;
        let desc = if want_desc { Some(format!("{i:?} fits={fits} flip_neighbour={flip}")) } else { None };
        let mut key = Vec::new();
        for v in [i.up as usize, i.start, i.end, i.size, i.align, i.min_align] {
            key.extend_from_slice(&v.to_le_bytes());
        }
        CaseResult {
            report: CaseReport {
                nontrivial,
                hash: fnv(&key),
                classes,
                ops: 1,
                nops: 0,
                desc,
                counters: vec![("function_evaluations", checks)],
            },
            failures: fails,
        }
    }
}

// ------------------------------------------------------------------------------------------
// C12a: chunk size computation + composition with the real bump functions

#[derive(Debug, Clone, Copy)]
struct SizeInput {
    up: bool,
    a_size: usize,
    a_align: usize,
    mcs: usize,
    req_size: usize,
    req_align: usize,
    prev: Option<usize>,
    extra: usize,
    base_sel: u64,
    raw_hint: Option<usize>,
}

/// mirror of `#[repr(C, align(16))] struct ChunkHeader<A> { 4 words, A }`
pub fn header_layout(a: Layout) -> Layout {
    let words = Layout::new::<[usize; 4]>();
    let (l, _) = words.extend(a).unwrap();
    l.align_to(16).unwrap().pad_to_align()
}

fn gen_size_input(c: &mut Cur) -> SizeInput {
    let up = c.u8() & 1 == 1;
    let a_align = 1usize << (c.u8() % 9);
    let a_size_raw = c.u16() as usize % 257;
    // a type's size is a multiple of its alignment
    let a_size = match c.u8() % 4 {
        0 => 0,
        _ => a_size_raw.div_ceil(a_align) * a_align,
    }
    .min(256usize.max(a_align));
    let mcs = match c.u8() % 8 {
        0 => 0,
        1 => 1,
        2 | 3 => 512,
        4 => 4096,
        5 => 1 << 20,
        6 => usize::MAX,
        _ => c.u32() as usize % 100_000,
    };
    let req_align = {
        let b = c.u8();
        match b % 8 {
            0..=3 => 1usize << ((b / 8) % 6),
            4 | 5 => 1usize << ((b / 8) % 13),
            6 => 1usize << (13 + (b / 8) % 17),
            _ => a_align.max(16) << ((b / 8) % 3),
        }
    };
    let kind = c.u8();
    let raw = c.u64();
    let boundary = {
        // a rounding boundary: power of two or page multiple
        let e = (raw >> 8) % 40;
        if kind & 0x40 != 0 { 1u128 << e } else { 4096u128 * (1 + (raw >> 16) % 4096) as u128 }
    };
    let req_size128: u128 = match kind % 10 {
        0 => 0,
        1 => (raw % 64) as u128,
        2 | 3 => (raw % 8192) as u128,
        4 | 5 => boundary.saturating_sub(96).saturating_add((raw % 192) as u128),
        6 => (raw % (1 << 24)) as u128,
        7 => IMAX - (raw % (1 << 20)) as u128,
        8 => IMAX / 2 + (raw % (1 << 20)) as u128 - (1 << 19),
        _ => (raw as u128) % (IMAX + 1),
    };
    let max_size = IMAX - (req_align as u128 - 1);
    let req_size = req_size128.min(max_size) as usize;
    let prev = match c.u8() % 6 {
        0 | 1 => None,
        2 | 3 => Some(((c.u32() as usize % (1 << 22)) / 16 * 16).max(64)),
        4 => Some((usize::MAX / 2 - (c.u32() as usize % 65536)) / 16 * 16),
        _ => Some(((c.u64() as usize) % (isize::MAX as usize)) / 16 * 16 + 64),
    };
    let extra = match c.u8() % 8 {
        0 | 1 => 0,
        2 => 1 + c.u8() as usize % 15,
        3 => 16,
        4 => 17 + c.u16() as usize % 4079,
        5 => c.u32() as usize % (1 << 20),
        6 => c.u8() as usize,
        _ => 4096 * (1 + c.u8() as usize % 8) + c.u8() as usize % 3,
    };
    let base_sel = c.u64();
    let raw_hint = match c.u8() % 4 {
        0 => Some(match c.u8() % 5 {
            0 => c.u16() as usize,
            1 => usize::MAX - c.u16() as usize,
            2 => (isize::MAX as usize).wrapping_add(c.u16() as usize).wrapping_sub(32768),
            3 => (boundary.min(TOP) as usize).wrapping_add(c.u8() as usize).wrapping_sub(128),
            _ => c.u64() as usize,
        }),
        _ => None,
    };
    SizeInput { up, a_size, a_align, mcs, req_size, req_align, prev, extra, base_sel, raw_hint }
}

pub struct PureSize;

impl Engine for PureSize {
    fn name(&self) -> &'static str {
        "D/pure-size"
    }
    fn max_records(&self) -> usize {
        0
    }
    fn header_len(&self) -> usize {
        64
    }
    fn rule(&self) -> String {
        "generator: base-allocator value layouts size 0..256 / align 1..256 (header = repr(C, align(16)) {4 words, A}), both directions, minimum chunk sizes \
         {0,1,512,4096,2^20,usize::MAX,random}, request layouts with sizes up to isize::MAX aimed at power-of-two / page-multiple rounding boundaries and alignments up to 2^29, \
         optional previous chunk size (growth path incl. sizes whose doubling overflows), granted size = computed + extra (0, 1..15, 16, 17..4095, large), grant address any multiple of the header alignment \
         incl. both ends of the address space; the chunk is laid out as NonDummyChunk::new does and the real bump_up/bump_down/bump_prepare_* are called on its content range for \
         every minimum alignment and truthful hint vector. non-trivial: header alignment > 16, or request alignment > header alignment, or grant extra not a multiple of 16, \
         with the size hint within 64 bytes of a rounding boundary; distinct by input tuple"
            .into()
    }
    fn required_classes(&self) -> Vec<(&'static str, f64)> {
        vec![("some_size", 0.3), ("overflow_none", 0.02), ("header_align_gt_16", 0.2), ("req_align_gt_header", 0.1), ("extra_not_mult_16", 0.1), ("growth", 0.2), ("composed_fit", 0.25)]
    }
    fn assumptions(&self) -> Vec<String> {
        vec![
            "64-bit usize".into(),
            "header placement mirrors NonDummyChunk::new (validated against the real arena by the C12 arena oracle)".into(),
            "the base allocator honours the Allocator contract: granted >= requested, pointer aligned to the header alignment".into(),
        ]
    }
    fn run_case(&self, bytes: &[u8], want_desc: bool) -> CaseResult {
        let mut c = Cur::new(bytes);
        let i = gen_size_input(&mut c);
        let mut fails: Vec<Failure> = Vec::new();
        let mut checks = 0u64;
        let mut classes: Vec<&'static str> = Vec::new();
        let r = catch_unwind(AssertUnwindSafe(|| check_size(&i, &mut fails, &mut checks, &mut classes)));
        let mut nontrivial = false;
        match r {
            Ok(nt) => nontrivial = nt,
            Err(p) => fails.push(Failure { oracle: "C12/panic".into(), msg: format!("panic on {i:?}: {}", crate::runner::panic_message(&p)) }),
        }
        let desc = if want_desc { Some(format!("{i:?} classes={classes:?}")) } else { None };
        let key = format!("{i:?}");
        CaseResult {
            report: CaseReport { nontrivial, hash: fnv(key.as_bytes()), classes, ops: 1, nops: 0, desc, counters: vec![("function_evaluations", checks)] },
            failures: fails,
        }
    }
}

fn check_size(i: &SizeInput, fails: &mut Vec<Failure>, checks: &mut u64, classes: &mut Vec<&'static str>) -> bool {
    let fail = |fails: &mut Vec<Failure>, id: &str, msg: String| {
        if !fails.iter().any(|f| f.oracle == id) {
            fails.push(Failure { oracle: id.to_string(), msg });
        }
    };
    let a = Layout::from_size_align(i.a_size, i.a_align).unwrap();
    let h = header_layout(a);
    let (hs, ha) = (h.size() as u128, h.align() as u128);
    let cfg = ChunkSizeConfig { up: i.up, assumed_malloc_overhead_layout: Layout::new::<[usize; 2]>(), chunk_header_layout: h };
    let req = Layout::from_size_align(i.req_size, i.req_align).unwrap();
    classes.push(if i.up { "up" } else { "down" });
    if ha > 16 {
        classes.push("header_align_gt_16");
    }
    if i.req_align as u128 > ha {
        classes.push("req_align_gt_header");
    }
    if i.extra % 16 != 0 {
        classes.push("extra_not_mult_16");
    }

    // raw hint path: calc_size_from_hint on its own (with_size)
    if let Some(hint) = i.raw_hint {
        *checks += 1;
        let hint = hint.max(i.mcs);
        if let Some(sz) = cfg.calc_size_from_hint(hint) {
            let sz = sz.get() as u128;
            if sz % 16 != 0 || (!i.up && sz % ha != 0) {
                fail(fails, "C12/size-multiple", format!("calc_size_from_hint({hint}) = {sz} not a multiple of 16 / header align {ha}: {i:?}"));
            }
            if sz < hs {
                fail(fails, "C12/size-min", format!("calc_size_from_hint({hint}) = {sz} smaller than the header {hs}: {i:?}"));
            }
            if sz + 16 < hint as u128 {
                fail(fails, "C12/size-wrap", format!("calc_size_from_hint({hint}) = {sz} is smaller than the hint less 16 (wrapped?): {i:?}"));
            }
        } else if (hint as u128) < (1u128 << 62) && ha <= 4096 {
            fail(fails, "C12/spurious-none", format!("calc_size_from_hint({hint}) = None far from overflow: {i:?}"));
        }
    }

    *checks += 1;
    let hint = cfg.calc_hint_from_capacity(req);
    // wide-integer requirement: header + capacity + worst-case padding must be representable
    let pad = (i.req_align as u128).saturating_sub(ha);
    let need = hs + i.req_size as u128 + pad;
    let Some(hint) = hint else {
        classes.push("overflow_none");
        if need + 64 + ha < (1u128 << 62) {
            fail(fails, "C12/spurious-none", format!("calc_hint_from_capacity = None but header+capacity+padding = {need}: {i:?}"));
        }
        return false;
    };
    if (hint as u128) < need {
        fail(fails, "C12/hint-small", format!("hint {hint} < header+capacity+padding {need}: {i:?}"));
    }
    let mut growth = None;
    let mut hint2 = hint;
    if let Some(prev) = i.prev {
        classes.push("growth");
        match prev.checked_mul(2) {
            Some(g) => {
                growth = Some(g);
                hint2 = hint2.max(g);
            }
            None => {
                classes.push("overflow_none");
                return false; // append_for reports capacity overflow
            }
        }
    }
    let hint2 = hint2.max(i.mcs);
    *checks += 1;
    let Some(size) = cfg.calc_size_from_hint(hint2) else {
        classes.push("overflow_none");
        if (hint2 as u128) < (1u128 << 62) && ha <= 4096 {
            fail(fails, "C12/spurious-none", format!("calc_size_from_hint({hint2}) = None far from overflow: {i:?}"));
        }
        return false;
    };
    let size = size.get();
    let s = size as u128;
    classes.push("some_size");
    if s % 16 != 0 || (!i.up && s % ha != 0) {
        fail(fails, "C12/size-multiple", format!("size {s} not a multiple of 16 / header align {ha} (down): {i:?}"));
    }
    if s < need {
        fail(fails, "C12/size-min", format!("size {s} < header + capacity + padding = {need} (hint {hint2}): {i:?}"));
    }
    if let Some(g) = growth {
        if s + 16 < g as u128 {
            fail(fails, "C12/growth", format!("size {s} < 2*prev - 16 = {}: {i:?}", g as u128 - 16));
        }
    }
    if s + 16 < hint2 as u128 {
        fail(fails, "C12/size-wrap", format!("size {s} smaller than hint {hint2} less 16: wrapped: {i:?}"));
    }
    // the layout the arena requests
    if Layout::from_size_align(size, h.align()).is_err() {
        classes.push("overflow_none"); // reported as capacity overflow by ChunkSize::layout
        return false;
    }
    // grant
    let Some(granted) = size.checked_add(i.extra) else { return false };
    if granted as u128 > IMAX {
        return false;
    }
    *checks += 1;
    let used = cfg.align_size(granted);
    if used < size || used > granted {
        fail(fails, "C12/align-size", format!("align_size({granted}) = {used} outside [requested {size}, granted]: {i:?}"));
        return false;
    }
    if used % 16 != 0 || (!i.up && used as u128 % ha != 0) {
        fail(fails, "C12/align-size", format!("align_size({granted}) = {used} not a multiple of 16 / header align: {i:?}"));
        return false;
    }
    // grant address: multiple of header align, block inside the address space, non-null
    let max_base = (TOP + 1 - granted as u128) / ha * ha;
    if max_base < ha {
        return false;
    }
    let base: u128 = match i.base_sel % 4 {
        0 => ha,
        1 => max_base.saturating_sub(((i.base_sel >> 2) % 64) as u128 * ha).max(ha),
        _ => (((i.base_sel >> 2) as u128 % (1u128 << 47)) / ha * ha).clamp(ha, max_base),
    };
    let base = base as usize;
    if base as u128 + used as u128 > TOP {
        // end address must be representable and 16-aligned end <= usize::MAX-15
        return false;
    }
    let (cstart, cend) = if i.up { (base + h.size(), base + used) } else { (base, base + used - h.size()) };
    let mut composed = 0;
    for ma in [1usize, 2, 4, 8, 16] {
        for hv in hints(i.req_size, i.req_align) {
            *checks += 1;
            let p = BumpProps {
                start: cstart,
                end: cend,
                min_align: ma,
                layout: req,
                align_is_const: hv.0,
                size_is_const: hv.1,
                size_is_multiple_of_align: hv.2,
            };
            let ok = if i.up { bump_up(p).is_some() } else { bump_down(p).is_some() };
            if !ok {
                fail(fails, "C12/fresh-chunk-fits", format!("layout does not fit the fresh chunk: content {cstart:#x}..{cend:#x} (base {base:#x}, used {used}, header {hs}), min_align {ma}, hints {hv:?}: {i:?}"));
            } else {
                composed += 1;
            }
            if i.req_size % i.req_align == 0 {
                let p = BumpProps {
                    start: cstart,
                    end: cend,
                    min_align: ma,
                    layout: req,
                    align_is_const: hv.0,
                    size_is_const: hv.1,
                    size_is_multiple_of_align: hv.2,
                };
                *checks += 1;
                let ok = if i.up { bump_prepare_up(p).is_some() } else { bump_prepare_down(p).is_some() };
                if !ok {
                    fail(fails, "C12/fresh-chunk-fits", format!("prepare: layout does not fit the fresh chunk: content {cstart:#x}..{cend:#x}, min_align {ma}, hints {hv:?}: {i:?}"));
                }
            }
        }
    }
    if composed > 0 {
        classes.push("composed_fit");
    }
    // non-trivial rule
    let near_boundary = {
        let hb = hint2 as u128;
        let step = 4096u128.max(ha);
        let d_pow = if hb < step {
            let np = hb.next_power_of_two();
            (np - hb).min(hb - np / 2)
        } else {
            u128::MAX
        };
        let d_page = (hb % step).min(step - hb % step);
        d_pow.min(d_page) <= 64
    };
    (ha > 16 || i.req_align as u128 > ha || i.extra % 16 != 0) && near_boundary
}
