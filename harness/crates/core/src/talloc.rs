//! Instrumented base allocators (DESIGN.md 2.4): a per-thread slab with generator-chosen
//! placement, guard bytes, a grant/release ledger, poison-after-release, grant policies, fault
//! plans, and several handle shapes that decide `ChunkHeader<A>`'s size and alignment.

use std::alloc::Layout;
use std::cell::RefCell;
use std::ptr::NonNull;

use bump_scope::alloc::{AllocError, Allocator};

pub const SLAB_SIZE: usize = 64 << 20;
pub const SLAB_ALIGN: usize = 1 << 20;
pub const GUARD: usize = 64;
pub const FRESH: u8 = 0xCD;
pub const POISON: u8 = 0xDD;
pub const CANARY: u8 = 0xA5;
pub const NCTX: usize = 2;

#[derive(Clone, Copy, Debug, PartialEq, Eq)]
pub enum GrantPolicy {
    Exact,
    /// + k bytes
    Plus(usize),
    RoundTo(usize),
}

#[derive(Clone, Debug)]
pub struct Grant {
    pub ptr: usize,
    pub req: Layout,
    pub granted: usize,
    pub live: bool,
    pub release_layout: Option<Layout>,
    /// index of the allocate call (0-based, counting failed calls too)
    pub call: u64,
}

#[derive(Clone, Copy, Debug, Default)]
pub struct FaultPlan {
    /// bit i set: the i-th allocate call (i < 64) fails
    pub mask: u64,
    /// every call with index >= from fails
    pub from: Option<u64>,
    pub enabled: bool,
}

pub struct Ctx {
    slab: *mut u8,
    cursor: usize,
    pub grants: Vec<Grant>,
    /// number of allocate calls so far (successful or not)
    pub calls: u64,
    /// number of calls that failed by plan
    pub faults_fired: u64,
    pub dealloc_calls: u64,
    pub plan: FaultPlan,
    pub policy: GrantPolicy,
    pub congruence: u64,
    pub handles_live: i64,
    pub handles_created: u64,
    pub errors: Vec<String>,
    pub exhausted: bool,
}

impl Ctx {
    fn new() -> Self {
        let layout = Layout::from_size_align(SLAB_SIZE, SLAB_ALIGN).unwrap();
        let slab = unsafe { std::alloc::alloc(layout) };
        assert!(!slab.is_null(), "slab allocation failed");
        Ctx {
            slab,
            cursor: 0,
            grants: Vec::new(),
            calls: 0,
            faults_fired: 0,
            dealloc_calls: 0,
            plan: FaultPlan::default(),
            policy: GrantPolicy::Exact,
            congruence: 0,
            handles_live: 0,
            handles_created: 0,
            errors: Vec::new(),
            exhausted: false,
        }
    }

    pub fn reset(&mut self, policy: GrantPolicy, congruence: u64, plan: FaultPlan) {
        self.cursor = 0;
        self.grants.clear();
        self.calls = 0;
        self.faults_fired = 0;
        self.dealloc_calls = 0;
        self.plan = plan;
        self.policy = policy;
        self.congruence = congruence | 1;
        self.handles_live = 0;
        self.handles_created = 0;
        self.errors.clear();
        self.exhausted = false;
    }

    pub fn slab_remaining(&self) -> usize {
        SLAB_SIZE - self.cursor
    }

    pub fn slab_base(&self) -> usize {
        self.slab as usize
    }

    fn next_congruence(&mut self) -> u64 {
        // xorshift64
        let mut x = self.congruence;
        x ^= x << 13;
        x ^= x >> 7;
        x ^= x << 17;
        self.congruence = x;
        x
    }

    fn error(&mut self, msg: String) {
        if self.errors.len() < 8 {
            self.errors.push(msg);
        }
    }

    fn allocate(&mut self, layout: Layout) -> Result<NonNull<[u8]>, AllocError> {
        let call = self.calls;
        self.calls += 1;
        if self.plan.enabled {
            let by_mask = call < 64 && (self.plan.mask >> call) & 1 == 1;
            let by_from = self.plan.from.map(|f| call >= f).unwrap_or(false);
            if by_mask || by_from {
                self.faults_fired += 1;
                return Err(AllocError);
            }
        }
        if layout.size() == 0 {
            // the arena never asks for zero bytes; behave like Global
            self.error(format!("base allocator asked for a zero-sized block: {layout:?}"));
            return Err(AllocError);
        }
        let granted = match self.policy {
            GrantPolicy::Exact => layout.size(),
            GrantPolicy::Plus(k) => layout.size() + k,
            GrantPolicy::RoundTo(r) => layout.size().div_ceil(r) * r,
        };
        let align = layout.align();
        // placement: address congruent to a generated value modulo 4096, respecting alignment
        let base = self.slab as usize;
        let mut addr = base + self.cursor + GUARD;
        let c = self.next_congruence() as usize;
        if align >= 4096 {
            addr = addr.div_ceil(align) * align;
        } else {
            let want = (c % (4096 / align)) * align; // desired addr % 4096
            let page = addr / 4096 * 4096;
            addr = if page + want >= addr { page + want } else { page + 4096 + want };
        }
        let end = addr + granted + GUARD;
        if end > base + SLAB_SIZE {
            if granted < SLAB_SIZE / 2 {
                self.exhausted = true;
            }
            return Err(AllocError);
        }
        self.cursor = end - base;
        unsafe {
            std::ptr::write_bytes((addr - GUARD) as *mut u8, CANARY, GUARD);
            std::ptr::write_bytes(addr as *mut u8, FRESH, granted);
            std::ptr::write_bytes((addr + granted) as *mut u8, CANARY, GUARD);
        }
        self.grants.push(Grant { ptr: addr, req: layout, granted, live: true, release_layout: None, call });
        let p = unsafe { NonNull::new_unchecked(addr as *mut u8) };
        Ok(NonNull::slice_from_raw_parts(p, granted))
    }

    fn deallocate(&mut self, ptr: NonNull<u8>, layout: Layout) {
        self.dealloc_calls += 1;
        let addr = ptr.as_ptr() as usize;
        let Some(idx) = self.grants.iter().position(|g| g.ptr == addr) else {
            self.error(format!("C05/release-unknown: deallocate({addr:#x}, {layout:?}) does not match any grant"));
            return;
        };
        let g = self.grants[idx].clone();
        if !g.live {
            self.error(format!("C05/double-release: grant {addr:#x} (call {}) released twice", g.call));
            return;
        }
        if layout.align() != g.req.align() {
            self.error(format!(
                "C05/release-align: grant {addr:#x} requested with {:?} released with {layout:?}",
                g.req
            ));
        }
        if layout.size() < g.req.size() || layout.size() > g.granted {
            self.error(format!(
                "C05/release-size: grant {addr:#x} requested {:?} granted {} released with size {}",
                g.req,
                g.granted,
                layout.size()
            ));
        }
        // canaries
        if let Some(m) = check_canaries(&g) {
            self.error(m);
        }
        self.grants[idx].live = false;
        self.grants[idx].release_layout = Some(layout);
        unsafe { std::ptr::write_bytes(addr as *mut u8, POISON, g.granted) };
    }

    /// Checks canaries of all grants and the poison of released ones. Returns the first problem.
    pub fn check_memory(&self, full: bool) -> Option<String> {
        for g in &self.grants {
            if let Some(m) = check_canaries(g) {
                return Some(m);
            }
            if full && !g.live {
                let s = unsafe { std::slice::from_raw_parts(g.ptr as *const u8, g.granted) };
                if let Some(i) = s.iter().position(|b| *b != POISON) {
                    return Some(format!(
                        "C05/write-after-release: byte {i} of released grant {:#x} (size {}) is {:#x}",
                        g.ptr, g.granted, s[i]
                    ));
                }
            }
        }
        None
    }

    pub fn live_grants(&self) -> impl Iterator<Item = &Grant> {
        self.grants.iter().filter(|g| g.live)
    }
}

fn check_canaries(g: &Grant) -> Option<String> {
    unsafe {
        let before = std::slice::from_raw_parts((g.ptr - GUARD) as *const u8, GUARD);
        let after = std::slice::from_raw_parts((g.ptr + g.granted) as *const u8, GUARD);
        if let Some(i) = before.iter().position(|b| *b != CANARY) {
            return Some(format!(
                "C05/outside-grant: guard byte {} before grant {:#x} overwritten with {:#x}",
                GUARD - i,
                g.ptr,
                before[i]
            ));
        }
        if let Some(i) = after.iter().position(|b| *b != CANARY) {
            return Some(format!(
                "C05/outside-grant: guard byte {i} after grant {:#x}+{} overwritten with {:#x}",
                g.ptr, g.granted, after[i]
            ));
        }
    }
    None
}

thread_local! {
    static CTXS: [RefCell<Option<Ctx>>; NCTX] = const { [RefCell::new(None), RefCell::new(None)] };
}

pub fn with_ctx<R>(c: usize, f: impl FnOnce(&mut Ctx) -> R) -> R {
    CTXS.with(|cs| {
        let mut b = cs[c].borrow_mut();
        if b.is_none() {
            *b = Some(Ctx::new());
        }
        f(b.as_mut().unwrap())
    })
}

const MAGIC: u64 = 0x5AFE_A110_C8ED_BEEF;

/// Trait over the handle shapes so engines can be generic.
pub trait Handle: Allocator + Clone + Default + 'static {
    const NAME: &'static str;
    const CTX: usize;
    /// the minimum alignment for which the full operation set is instantiated (see api.rs)
    const HOME: usize;
    fn new() -> Self;
}

macro_rules! handle_common {
    ($name:ident) => {
        impl<const C: usize, const H: usize> Clone for $name<C, H> {
            fn clone(&self) -> Self {
                self.check();
                Self::new()
            }
        }
        impl<const C: usize, const H: usize> Default for $name<C, H> {
            fn default() -> Self {
                Self::new()
            }
        }
        impl<const C: usize, const H: usize> Drop for $name<C, H> {
            fn drop(&mut self) {
                self.check();
                with_ctx(C, |c| c.handles_live -= 1);
            }
        }
        unsafe impl<const C: usize, const H: usize> Allocator for $name<C, H> {
            fn allocate(&self, layout: Layout) -> Result<NonNull<[u8]>, AllocError> {
                self.check();
                with_ctx(C, |c| c.allocate(layout))
            }
            unsafe fn deallocate(&self, ptr: NonNull<u8>, layout: Layout) {
                self.check();
                with_ctx(C, |c| c.deallocate(ptr, layout))
            }
        }
    };
}

fn created(c: usize) {
    with_ctx(c, |c| {
        c.handles_live += 1;
        c.handles_created += 1;
    });
}

/// zero-sized handle
pub struct Z<const C: usize, const H: usize = 1>;
impl<const C: usize, const H: usize> Z<C, H> {
    fn check(&self) {}
}
impl<const C: usize, const H: usize> Handle for Z<C, H> {
    const HOME: usize = H;
    const NAME: &'static str = "Z";
    const CTX: usize = C;
    fn new() -> Self {
        created(C);
        Z
    }
}
handle_common!(Z);

/// pointer-sized stateful handle (8 bytes, align 8)
pub struct P<const C: usize, const H: usize = 1>(u64);
impl<const C: usize, const H: usize> P<C, H> {
    fn check(&self) {
        if self.0 != MAGIC {
            with_ctx(C, |c| c.error(format!("C05/handle-corrupted: allocator handle P holds {:#x}", self.0)));
        }
    }
}
impl<const C: usize, const H: usize> Handle for P<C, H> {
    const HOME: usize = H;
    const NAME: &'static str = "P";
    const CTX: usize = C;
    fn new() -> Self {
        created(C);
        P(MAGIC)
    }
}
handle_common!(P);

/// 24-byte handle
pub struct P24<const C: usize, const H: usize = 1>([u64; 3]);
impl<const C: usize, const H: usize> P24<C, H> {
    fn check(&self) {
        if self.0 != [MAGIC, !MAGIC, MAGIC ^ 0xFF] {
            with_ctx(C, |c| c.error(format!("C05/handle-corrupted: allocator handle P24 holds {:x?}", self.0)));
        }
    }
}
impl<const C: usize, const H: usize> Handle for P24<C, H> {
    const HOME: usize = H;
    const NAME: &'static str = "P24";
    const CTX: usize = C;
    fn new() -> Self {
        created(C);
        P24([MAGIC, !MAGIC, MAGIC ^ 0xFF])
    }
}
handle_common!(P24);

/// a large stateful handle (240 bytes): the chunk header takes more than half of a minimum-size chunk
pub struct B240<const C: usize, const H: usize = 1>([u64; 30]);
impl<const C: usize, const H: usize> B240<C, H> {
    fn check(&self) {
        if self.0.iter().enumerate().any(|(i, w)| *w != MAGIC ^ i as u64) {
            with_ctx(C, |c| c.error("C05/handle-corrupted: allocator handle B240 was overwritten".to_string()));
        }
    }
}
impl<const C: usize, const H: usize> Handle for B240<C, H> {
    const HOME: usize = H;
    const NAME: &'static str = "B240";
    const CTX: usize = C;
    fn new() -> Self {
        created(C);
        B240(std::array::from_fn(|i| MAGIC ^ i as u64))
    }
}
handle_common!(B240);

/// over-aligned handles: header alignment above 16
#[repr(align(32))]
pub struct O32<const C: usize, const H: usize = 1>(u64);
impl<const C: usize, const H: usize> O32<C, H> {
    fn check(&self) {
        if self.0 != MAGIC {
            with_ctx(C, |c| c.error(format!("C05/handle-corrupted: allocator handle O32 holds {:#x}", self.0)));
        }
        if (self as *const Self as usize) % 32 != 0 {
            with_ctx(C, |c| c.error("C05/handle-misaligned: O32 handle not 32-aligned".to_string()));
        }
    }
}
impl<const C: usize, const H: usize> Handle for O32<C, H> {
    const HOME: usize = H;
    const NAME: &'static str = "O32";
    const CTX: usize = C;
    fn new() -> Self {
        created(C);
        O32(MAGIC)
    }
}
handle_common!(O32);

#[repr(align(64))]
pub struct O64<const C: usize, const H: usize = 1>(u64);
impl<const C: usize, const H: usize> O64<C, H> {
    fn check(&self) {
        if self.0 != MAGIC {
            with_ctx(C, |c| c.error(format!("C05/handle-corrupted: allocator handle O64 holds {:#x}", self.0)));
        }
        if (self as *const Self as usize) % 64 != 0 {
            with_ctx(C, |c| c.error("C05/handle-misaligned: O64 handle not 64-aligned".to_string()));
        }
    }
}
impl<const C: usize, const H: usize> Handle for O64<C, H> {
    const HOME: usize = H;
    const NAME: &'static str = "O64";
    const CTX: usize = C;
    fn new() -> Self {
        created(C);
        O64(MAGIC)
    }
}
handle_common!(O64);

/// Mirror of `#[repr(C, align(16))] struct ChunkHeader<A> { pos, end, prev, next, allocator: A }`
/// (src/chunk/header.rs) used to derive header size independently of the library's statistics.
#[repr(C, align(16))]
pub struct HeaderMirror<A> {
    _w: [usize; 4],
    _a: A,
}

pub fn header_layout<A>() -> Layout {
    Layout::new::<HeaderMirror<A>>()
}
