//! Engine G (DESIGN.md C17): the same request history applied in lock-step to two arenas in
//! identical initial states through two different entry points; results must agree.

#![allow(clippy::too_many_arguments)]

use std::alloc::Layout;
use std::collections::BTreeSet;
use std::mem::MaybeUninit;
use std::panic::{AssertUnwindSafe, catch_unwind};
use std::ptr::NonNull;

use bump_scope::alloc::Allocator;
use bump_scope::settings::{Bool, BumpSettings};
use bump_scope::traits::{
    BumpAllocatorCore, BumpAllocatorCoreScope, BumpAllocatorTyped, BumpAllocatorTypedScope, MutBumpAllocatorCoreScope, MutBumpAllocatorTypedScope,
};
use bump_scope::{BaseAllocator, Bump, BumpBox, BumpScope};

use bsv_core::common::{Al32, StatsSnap, snap_stats, text, val_bytes};
use bsv_core::common::{Rec, pick};
use bsv_core::runner::{CaseReport, CaseResult, Engine, Failure, panic_message};
use bsv_core::talloc::{FaultPlan, GrantPolicy, Handle, Z, with_ctx};

#[derive(Clone, Copy, Debug, PartialEq, Eq)]
pub enum Ty {
    U8,
    U32,
    A3,
    Al32,
    Unit,
    /// zero-sized but 8-aligned
    Z8,
}

#[derive(Clone, Debug, PartialEq, Eq)]
pub enum Req {
    Alloc(Ty),
    AllocWith(Ty),
    AllocDefault(Ty),
    Uninit(Ty),
    SliceCopy(Ty, usize),
    SliceClone(Ty, usize),
    SliceFill(Ty, usize),
    SliceFillWith(Ty, usize),
    UninitSlice(Ty, usize),
    Str(usize),
    Fmt(usize),
    CStrFromStr(usize),
    CStrFmt(usize),
    Iter(usize),
    IterExact(usize),
    // BumpAllocatorTyped level
    Layout(usize, usize),
    Sized(Ty),
    Slice(Ty, usize),
    SliceFor(Ty, usize),
    PrepareCommit(Ty, usize, usize, bool),
    Reserve(usize),
    // needs &mut
    IterMut(usize, bool),
    FmtMut(usize),
    CStrFmtMut(usize),
    /// typed allocate_slice(n) followed by the typed shrink_slice to m elements
    ShrinkLast(Ty, usize, usize),
    /// alloc_try_with / alloc_try_with_mut (inherent on Bump and BumpScope): closure result, payload shape
    TryWith(bool, u8),
}

impl Req {
    fn needs_mut(&self) -> bool {
        matches!(self, Req::IterMut(..) | Req::FmtMut(_) | Req::CStrFmtMut(_))
    }
    fn scope_level(&self) -> bool {
        !matches!(self, Req::Layout(..) | Req::Sized(_) | Req::Slice(..) | Req::SliceFor(..) | Req::PrepareCommit(..) | Req::Reserve(_) | Req::ShrinkLast(..))
    }
}

#[derive(Clone, Debug, PartialEq, Eq)]
pub struct Out {
    pub ok: bool,
    /// offset of the block from the slab base (None for zero-sized / no block)
    pub off: Option<usize>,
    pub bytes: Vec<u8>,
}

#[derive(Clone, Copy, Debug, PartialEq, Eq)]
pub enum Entry {
    ScopeInherent,
    BumpInherent,
    RefBump,
    MutRefBump,
    RefScope,
    MutRefScope,
    RefRefScope,
    DynCoreScope,
    DynMutCoreScope,
    DynCore,
    /// the generic `Allocator::allocate(Layout)` (only for layout-level requests)
    AllocatorApi,
    /// `WithoutDealloc(&BumpScope)`: forwards everything except deallocation (typed-level requests only)
    WoDeallocScope,
}

const ENTRIES: [Entry; 12] = [
    Entry::ScopeInherent,
    Entry::BumpInherent,
    Entry::RefBump,
    Entry::MutRefBump,
    Entry::RefScope,
    Entry::MutRefScope,
    Entry::RefRefScope,
    Entry::DynCoreScope,
    Entry::DynMutCoreScope,
    Entry::DynCore,
    Entry::AllocatorApi,
    Entry::WoDeallocScope,
];

fn mk<T: Copy>(seed: u64, idx: usize) -> T {
    let mut v = MaybeUninit::<T>::zeroed();
    let n = std::mem::size_of::<T>();
    let p = v.as_mut_ptr() as *mut u8;
    for i in 0..n {
        unsafe { *p.add(i) = val_bytes(seed, idx * n.max(1) + i) };
    }
    unsafe { v.assume_init() }
}

fn out_box<T: ?Sized>(b: BumpBox<'_, T>, base: usize, read: bool) -> Out {
    let l = Layout::for_value::<T>(&b);
    let p = b.into_raw().cast::<u8>().as_ptr() as usize;
    let bytes = if read { unsafe { std::slice::from_raw_parts(p as *const u8, l.size()) }.to_vec() } else { vec![] };
    Out { ok: true, off: if l.size() == 0 { None } else { Some(p - base) }, bytes: [bytes, (l.size() as u64).to_le_bytes().to_vec()].concat() }
}

fn out_ptr(p: usize, size: usize, base: usize) -> Out {
    Out { ok: true, off: if size == 0 { None } else { Some(p - base) }, bytes: (size as u64).to_le_bytes().to_vec() }
}

const ERR: Out = Out { ok: false, off: None, bytes: vec![] };

macro_rules! with_ty {
    ($t:expr, $T:ident => $body:expr) => {
        match $t {
            Ty::U8 => {
                type $T = u8;
                $body
            }
            Ty::U32 => {
                type $T = u32;
                $body
            }
            Ty::A3 => {
                type $T = [u8; 3];
                $body
            }
            Ty::Al32 => {
                type $T = Al32;
                $body
            }
            Ty::Unit => {
                type $T = ();
                $body
            }
            Ty::Z8 => {
                type $T = [u64; 0];
                $body
            }
        }
    };
}

/// scope-level requests; `$b` may be a concrete Bump / BumpScope (inherent methods) or any
/// generic `BumpAllocatorTypedScope` (trait methods)
macro_rules! scope_req {
    ($b:expr, $req:expr, $try_:expr, $seed:expr, $base:expr) => {{
        let (b, try_, seed, base) = ($b, $try_, $seed, $base);
        macro_rules! t {
            ($tc:expr, $c:expr) => {
                if try_ {
                    match $tc {
                        Ok(x) => x,
                        Err(_) => return ERR,
                    }
                } else {
                    $c
                }
            };
        }
        match $req {
            Req::Alloc(ty) => with_ty!(*ty, T => out_box(t!(b.try_alloc(mk::<T>(seed, 0)), b.alloc(mk::<T>(seed, 0))), base, true)),
            Req::AllocWith(ty) => with_ty!(*ty, T => out_box(t!(b.try_alloc_with(|| mk::<T>(seed, 0)), b.alloc_with(|| mk::<T>(seed, 0))), base, true)),
            Req::AllocDefault(ty) => with_ty!(*ty, T => out_box(t!(b.try_alloc_default::<T>(), b.alloc_default::<T>()), base, true)),
            Req::Uninit(ty) => with_ty!(*ty, T => out_box(t!(b.try_alloc_uninit::<T>(), b.alloc_uninit::<T>()), base, false)),
            Req::SliceCopy(ty, n) => with_ty!(*ty, T => {
                let v: Vec<T> = (0..*n).map(|i| mk::<T>(seed, i)).collect();
                out_box(t!(b.try_alloc_slice_copy(&v), b.alloc_slice_copy(&v)), base, true)
            }),
            Req::SliceClone(ty, n) => with_ty!(*ty, T => {
                let v: Vec<T> = (0..*n).map(|i| mk::<T>(seed, i)).collect();
                out_box(t!(b.try_alloc_slice_clone(&v), b.alloc_slice_clone(&v)), base, true)
            }),
            Req::SliceFill(ty, n) => with_ty!(*ty, T => out_box(t!(b.try_alloc_slice_fill(*n, mk::<T>(seed, 0)), b.alloc_slice_fill(*n, mk::<T>(seed, 0))), base, true)),
            Req::SliceFillWith(ty, n) => with_ty!(*ty, T => {
                let mut i = 0usize;
                let mut g = || { let v = mk::<T>(seed, i); i += 1; v };
                let bx = if try_ { match b.try_alloc_slice_fill_with(*n, &mut g) { Ok(x) => x, Err(_) => return ERR } } else { b.alloc_slice_fill_with(*n, &mut g) };
                out_box(bx, base, true)
            }),
            Req::UninitSlice(ty, n) => with_ty!(*ty, T => out_box(t!(b.try_alloc_uninit_slice::<T>(*n), b.alloc_uninit_slice::<T>(*n)), base, false)),
            Req::Str(n) => {
                let s = text(seed, *n);
                out_box(t!(b.try_alloc_str(&s), b.alloc_str(&s)), base, true)
            }
            Req::Fmt(n) => {
                let s = text(seed, *n);
                out_box(t!(b.try_alloc_fmt(format_args!("{s}|{n}")), b.alloc_fmt(format_args!("{s}|{n}"))), base, true)
            }
            Req::CStrFromStr(n) => {
                let s = text(seed, *n);
                let c = t!(b.try_alloc_cstr_from_str(&s), b.alloc_cstr_from_str(&s));
                Out { ok: true, off: Some(c.as_ptr() as usize - base), bytes: c.to_bytes_with_nul().to_vec() }
            }
            Req::CStrFmt(n) => {
                let s = text(seed, *n);
                let c = t!(b.try_alloc_cstr_fmt(format_args!("{s}|{n}")), b.alloc_cstr_fmt(format_args!("{s}|{n}")));
                Out { ok: true, off: Some(c.as_ptr() as usize - base), bytes: c.to_bytes_with_nul().to_vec() }
            }
            Req::Iter(n) => {
                let it = (0..*n).map(|i| mk::<u32>(seed, i)).filter(|_| true);
                let bx = if try_ { match b.try_alloc_iter(it) { Ok(x) => x, Err(_) => return ERR } } else { b.alloc_iter(it) };
                out_box(bx, base, true)
            }
            Req::IterExact(n) => {
                let it = (0..*n).map(|i| mk::<u32>(seed, i));
                let bx = if try_ { match b.try_alloc_iter_exact(it) { Ok(x) => x, Err(_) => return ERR } } else { b.alloc_iter_exact(it) };
                out_box(bx, base, true)
            }
            _ => unreachable!("not a scope-level request"),
        }
    }};
}

macro_rules! mut_req {
    ($b:expr, $req:expr, $try_:expr, $seed:expr, $base:expr) => {{
        let (b, try_, seed, base) = ($b, $try_, $seed, $base);
        match $req {
            Req::IterMut(n, rev) => {
                let it = (0..*n).map(|i| mk::<u32>(seed, i)).filter(|_| true);
                let bx = match (*rev, try_) {
                    (false, true) => match b.try_alloc_iter_mut(it) { Ok(x) => x, Err(_) => return ERR },
                    (false, false) => b.alloc_iter_mut(it),
                    (true, true) => match b.try_alloc_iter_mut_rev(it) { Ok(x) => x, Err(_) => return ERR },
                    (true, false) => b.alloc_iter_mut_rev(it),
                };
                out_box(bx, base, true)
            }
            Req::FmtMut(n) => {
                let s = text(seed, *n);
                let bx = if try_ { match b.try_alloc_fmt_mut(format_args!("{s}|{n}")) { Ok(x) => x, Err(_) => return ERR } } else { b.alloc_fmt_mut(format_args!("{s}|{n}")) };
                out_box(bx, base, true)
            }
            Req::CStrFmtMut(n) => {
                let s = text(seed, *n);
                let c = if try_ { match b.try_alloc_cstr_fmt_mut(format_args!("{s}|{n}")) { Ok(x) => x, Err(_) => return ERR } } else { b.alloc_cstr_fmt_mut(format_args!("{s}|{n}")) };
                Out { ok: true, off: Some(c.as_ptr() as usize - base), bytes: c.to_bytes_with_nul().to_vec() }
            }
            _ => unreachable!("not a mut request"),
        }
    }};
}

/// BumpAllocatorTyped-level requests (typed fast paths)
fn typed_req<B: BumpAllocatorTyped + ?Sized>(b: &B, req: &Req, try_: bool, seed: u64, base: usize) -> Out {
    macro_rules! t {
        ($tc:expr, $c:expr) => {
            if try_ {
                match $tc {
                    Ok(x) => x,
                    Err(_) => return ERR,
                }
            } else {
                $c
            }
        };
    }
    match req {
        Req::Layout(size, align) => {
            let l = Layout::from_size_align(*size, *align).unwrap();
            out_ptr(t!(b.try_allocate_layout(l), b.allocate_layout(l)).as_ptr() as usize, *size, base)
        }
        Req::Sized(ty) => with_ty!(*ty, T => out_ptr(t!(b.try_allocate_sized::<T>(), b.allocate_sized::<T>()).as_ptr() as usize, std::mem::size_of::<T>(), base)),
        Req::Slice(ty, n) => with_ty!(*ty, T => out_ptr(t!(b.try_allocate_slice::<T>(*n), b.allocate_slice::<T>(*n)).as_ptr() as usize, std::mem::size_of::<T>() * n, base)),
        Req::SliceFor(ty, n) => with_ty!(*ty, T => {
            let v: Vec<MaybeUninit<T>> = (0..*n).map(|_| MaybeUninit::zeroed()).collect();
            out_ptr(t!(b.try_allocate_slice_for(&v[..]), b.allocate_slice_for(&v[..])).as_ptr() as usize, std::mem::size_of::<T>() * n, base)
        }),
        Req::PrepareCommit(ty, cap, len, rev) => with_ty!(*ty, T => {
            let sz = std::mem::size_of::<T>();
            if sz == 0 {
                return out_ptr(0, 0, base);
            }
            unsafe {
                if *rev {
                    let (end, c) = t!(b.try_prepare_slice_allocation_rev::<T>(*cap), b.prepare_slice_allocation_rev::<T>(*cap));
                    let len = (*len).min(c);
                    for i in 0..len {
                        end.sub(len).add(i).write(mk::<T>(seed, i));
                    }
                    let s = b.allocate_prepared_slice_rev::<T>(end, len, c);
                    let p = s.cast::<u8>().as_ptr() as usize;
                    Out { ok: true, off: if len == 0 { None } else { Some(p - base) }, bytes: std::slice::from_raw_parts(p as *const u8, len * sz).to_vec() }
                } else {
                    let sl = t!(b.try_prepare_slice_allocation::<T>(*cap), b.prepare_slice_allocation::<T>(*cap));
                    let c = sl.len();
                    let start = sl.cast::<T>();
                    let len = (*len).min(c);
                    for i in 0..len {
                        start.add(i).write(mk::<T>(seed, i));
                    }
                    let s = b.allocate_prepared_slice::<T>(start, len, c);
                    let p = s.cast::<u8>().as_ptr() as usize;
                    Out { ok: true, off: if len == 0 { None } else { Some(p - base) }, bytes: std::slice::from_raw_parts(p as *const u8, len * sz).to_vec() }
                }
            }
        }),
        Req::ShrinkLast(ty, n, m) => with_ty!(*ty, T => {
            let sz = std::mem::size_of::<T>();
            let p = t!(b.try_allocate_slice::<T>(*n), b.allocate_slice::<T>(*n));
            let m = (*m).min(*n);
            unsafe {
                for i in 0..*n {
                    p.add(i).write(mk::<T>(seed, i));
                }
                let r = b.shrink_slice::<T>(p, *n, m);
                let q = r.unwrap_or(p);
                let addr = q.cast::<u8>().as_ptr() as usize;
                // the surviving prefix at the effective pointer (`None` means "unchanged", which an entry point may
                // also express as `Some(same pointer)`)
                let bytes = std::slice::from_raw_parts(addr as *const u8, m * sz).to_vec();
                Out { ok: true, off: if m * sz == 0 { None } else { Some(addr - base) }, bytes }
            }
        }),
        Req::Reserve(n) => {
            if try_ {
                if b.try_reserve(*n).is_err() {
                    return ERR;
                }
            } else {
                b.reserve(*n);
            }
            Out { ok: true, off: None, bytes: vec![] }
        }
        _ => unreachable!("not a typed-level request"),
    }
}

fn generic_scope<'a, B: BumpAllocatorTypedScope<'a>>(b: &B, req: &Req, try_: bool, seed: u64, base: usize) -> Out {
    scope_req!(b, req, try_, seed, base)
}
fn generic_mut<'a, B: MutBumpAllocatorTypedScope<'a>>(b: &mut B, req: &Req, try_: bool, seed: u64, base: usize) -> Out {
    mut_req!(b, req, try_, seed, base)
}
fn allocator_api<B: Allocator>(b: &B, req: &Req, base: usize) -> Out {
    let l = match req {
        Req::Layout(s, a) => Layout::from_size_align(*s, *a).unwrap(),
        Req::Sized(ty) => with_ty!(*ty, T => Layout::new::<T>()),
        Req::Slice(ty, n) | Req::SliceFor(ty, n) => with_ty!(*ty, T => Layout::array::<T>(*n).unwrap()),
        _ => unreachable!(),
    };
    match b.allocate(l) {
        Ok(p) => out_ptr(p.cast::<u8>().as_ptr() as usize, l.size(), base),
        Err(_) => ERR,
    }
}

type S<const MA: usize, const UP: bool, const GA: bool> = BumpSettings<MA, UP, GA, true, true, true, 512>;

/// apply one request to one arena through one entry point
fn apply<A, const MA: usize, const UP: bool, const GA: bool>(bump: &mut Bump<A, S<MA, UP, GA>>, e: Entry, req: &Req, try_: bool, seed: u64, base: usize) -> Out
where
    A: Handle + BaseAllocator<Bool<GA>>,
    bump_scope::settings::MinimumAlignment<MA>: bump_scope::settings::SupportedMinimumAlignment,
{
    if let Req::TryWith(ok, shape) = req {
        // the four inherent entry points: shared / exclusive x Bump / BumpScope ("just like alloc_try_with, but
        // optimized for a mutable reference")
        macro_rules! tw {
            ($T:ty, $E:ty, $tv:expr, $ev:expr) => {{
                let f = || -> Result<$T, $E> { if *ok { Ok($tv) } else { Err($ev) } };
                let r = match e {
                    Entry::BumpInherent | Entry::RefBump | Entry::DynCore => {
                        if try_ { match bump.try_alloc_try_with(f) { Ok(x) => x, Err(_) => return ERR } } else { bump.alloc_try_with(f) }
                    }
                    Entry::MutRefBump | Entry::DynMutCoreScope => {
                        if try_ { match bump.try_alloc_try_with_mut(f) { Ok(x) => x, Err(_) => return ERR } } else { bump.alloc_try_with_mut(f) }
                    }
                    Entry::MutRefScope | Entry::RefRefScope => {
                        let s = bump.as_mut_scope();
                        if try_ { match s.try_alloc_try_with_mut(f) { Ok(x) => x, Err(_) => return ERR } } else { s.alloc_try_with_mut(f) }
                    }
                    _ => {
                        let s = bump.as_scope();
                        if try_ { match s.try_alloc_try_with(f) { Ok(x) => x, Err(_) => return ERR } } else { s.alloc_try_with(f) }
                    }
                };
                match r {
                    Ok(bx) => out_box(bx, base, true),
                    Err(er) => Out { ok: true, off: None, bytes: format!("{er:?}").into_bytes() },
                }
            }};
        }
        return match shape % 5 {
            4 => tw!([u64; 0], u32, [], seed as u32),
            0 => tw!(u64, u32, seed, seed as u32),
            1 => tw!([u8; 16], u8, [seed as u8; 16], 3u8),
            2 => tw!([u32; 3], [u32; 40], [seed as u32; 3], [7u32; 40]),
            _ => tw!([u64; 40], u16, [seed; 40], 9u16),
        };
    }
    if req.needs_mut() {
        return match e {
            Entry::BumpInherent => mut_req!(&mut *bump, req, try_, seed, base),
            Entry::ScopeInherent => {
                let s: &mut BumpScope<'_, A, S<MA, UP, GA>> = bump.as_mut_scope();
                mut_req!(s, req, try_, seed, base)
            }
            Entry::MutRefBump | Entry::RefBump => {
                let mut r = &mut *bump;
                generic_mut(&mut r, req, try_, seed, base)
            }
            Entry::DynMutCoreScope | Entry::DynCoreScope | Entry::DynCore => {
                let s = bump.as_mut_scope();
                let mut d: &mut dyn MutBumpAllocatorCoreScope<'_> = s;
                generic_mut(&mut d, req, try_, seed, base)
            }
            _ => {
                let mut s = bump.as_mut_scope();
                generic_mut(&mut s, req, try_, seed, base)
            }
        };
    }
    if req.scope_level() {
        return match e {
            Entry::BumpInherent => {
                let b: &Bump<A, S<MA, UP, GA>> = bump;
                scope_req!(b, req, try_, seed, base)
            }
            Entry::ScopeInherent | Entry::AllocatorApi | Entry::WoDeallocScope => {
                let s: &BumpScope<'_, A, S<MA, UP, GA>> = bump.as_scope();
                scope_req!(s, req, try_, seed, base)
            }
            Entry::RefBump => generic_scope(&&*bump, req, try_, seed, base),
            Entry::MutRefBump => generic_scope(&&mut *bump, req, try_, seed, base),
            // (&mut BumpScope / &&BumpScope forward like &BumpScope; they are exercised for the
            // typed-level requests below)
            Entry::RefScope | Entry::MutRefScope | Entry::RefRefScope => generic_scope(&bump.as_scope(), req, try_, seed, base),
            Entry::DynCoreScope | Entry::DynCore => {
                let d: &dyn BumpAllocatorCoreScope<'_> = bump.as_scope();
                generic_scope(&d, req, try_, seed, base)
            }
            Entry::DynMutCoreScope => {
                let d: &mut dyn MutBumpAllocatorCoreScope<'_> = bump.as_mut_scope();
                generic_scope(&d, req, try_, seed, base)
            }
        };
    }
    match e {
        Entry::BumpInherent | Entry::RefBump => typed_req(&*bump, req, try_, seed, base),
        Entry::MutRefBump => typed_req(&&mut *bump, req, try_, seed, base),
        Entry::ScopeInherent | Entry::RefScope => typed_req(bump.as_scope(), req, try_, seed, base),
        Entry::MutRefScope => typed_req(&bump.as_mut_scope(), req, try_, seed, base),
        Entry::RefRefScope => typed_req(&&bump.as_scope(), req, try_, seed, base),
        Entry::DynCoreScope => {
            let d: &dyn BumpAllocatorCoreScope<'_> = bump.as_scope();
            typed_req(d, req, try_, seed, base)
        }
        Entry::DynMutCoreScope => {
            let d: &mut dyn MutBumpAllocatorCoreScope<'_> = bump.as_mut_scope();
            typed_req(&*d, req, try_, seed, base)
        }
        Entry::DynCore => {
            let d: &dyn BumpAllocatorCore = bump.as_scope();
            typed_req(d, req, try_, seed, base)
        }
        Entry::WoDeallocScope => typed_req(&bump_scope::WithoutDealloc(bump.as_scope()), req, try_, seed, base),
        Entry::AllocatorApi => {
            if matches!(req, Req::PrepareCommit(..) | Req::Reserve(_) | Req::ShrinkLast(..)) {
                typed_req(bump.as_scope(), req, try_, seed, base)
            } else if seed & 1 == 0 {
                allocator_api(&*bump, req, base)
            } else {
                allocator_api(bump.as_scope(), req, base)
            }
        }
    }
}

fn rel(s: &StatsSnap, base: usize) -> (Vec<(usize, usize, usize)>, Option<usize>, usize, usize, usize) {
    // the position of a chunk *behind* the current one is stale by design (it is rewound when the chunk is
    // entered again) and not part of the observable state: an Err from alloc_try_with leaves it advanced, an Err
    // from alloc_try_with_mut never moved it
    let cur = s.current.as_ref().map(|c| c.chunk_start);
    let k = s.chunks.iter().position(|c| Some(c.chunk_start) == cur).unwrap_or(usize::MAX);
    (
        s.chunks.iter().enumerate().map(|(i, c)| (c.chunk_start - base, c.size, if i > k { 0 } else { c.pos - base })).collect(),
        s.current.as_ref().map(|c| c.chunk_start - base),
        s.count,
        s.allocated,
        s.remaining,
    )
}

struct St<'c> {
    recs: Vec<&'c [u8]>,
    fails: Vec<Failure>,
    classes: BTreeSet<&'static str>,
    log: Option<String>,
    hash: u64,
    ops: u64,
    crossed: bool,
    kinds_differ: bool,
}

fn decode_req(r: &Rec, remaining: usize) -> Req {
    let ty = [Ty::U8, Ty::U32, Ty::A3, Ty::Al32, Ty::Unit, Ty::Z8, Ty::U8, Ty::U32][r.b(4) as usize % 8];
    let n = match r.b(5) % 8 {
        0 => 0,
        1..=4 => r.b(6) as usize % 24,
        5 => remaining / 4 + r.b(6) as usize % 8,
        6 => remaining + 1 + r.b(6) as usize,
        _ => r.u16(6) % 1200,
    };
    let n_ty = |t: Ty| -> usize {
        let sz = with_ty!(t, T => std::mem::size_of::<T>()).max(1);
        (n / sz).min(2000)
    };
    match r.b(0) % 31 {
        27 | 28 => Req::TryWith(r.b(8) % 3 != 0, r.b(9)),
        29 | 30 => Req::ShrinkLast(ty, n_ty(ty).min(400), r.b(8) as usize % 12),
        0 | 1 => Req::Alloc(ty),
        2 => Req::AllocWith(ty),
        3 => Req::AllocDefault(ty),
        4 => Req::Uninit(ty),
        5 | 6 => Req::SliceCopy(ty, n_ty(ty)),
        7 => Req::SliceClone(ty, n_ty(ty)),
        8 => Req::SliceFill(ty, n_ty(ty)),
        9 => Req::SliceFillWith(ty, n_ty(ty)),
        10 => Req::UninitSlice(ty, n_ty(ty)),
        11 => Req::Str(n.min(600)),
        12 => Req::Fmt(n.min(600)),
        13 => Req::CStrFromStr(n.min(600)),
        14 => Req::CStrFmt(n.min(600)),
        15 => Req::Iter(n.min(300)),
        16 => Req::IterExact(n.min(300)),
        17 => Req::Layout(n.min(3000) / (1 << (r.b(7) % 7)) * (1 << (r.b(7) % 7)) + (r.b(8) as usize % 3), 1 << (r.b(7) % 7)),
        18 | 19 => Req::Sized(ty),
        20 | 21 => Req::Slice(ty, n_ty(ty)),
        22 => Req::SliceFor(ty, n_ty(ty)),
        23 => Req::PrepareCommit(ty, n_ty(ty), r.b(8) as usize % 40, r.b(9) & 1 == 1),
        24 => Req::Reserve(n.min(5000)),
        25 => Req::IterMut(n.min(300), r.b(9) & 1 == 1),
        _ => {
            if r.b(9) & 1 == 0 {
                Req::FmtMut(n.min(600))
            } else {
                Req::CStrFmtMut(n.min(600))
            }
        }
    }
}

fn run_cell<const MA: usize, const UP: bool, const GA: bool>(st: &mut St, hdr: &[u8])
where
    Z<0>: BaseAllocator<Bool<GA>>,
    Z<1>: BaseAllocator<Bool<GA>>,
    bump_scope::settings::MinimumAlignment<MA>: bump_scope::settings::SupportedMinimumAlignment,
{
    let b = |i: usize| hdr.get(i).copied().unwrap_or(0);
    let mk_a = || -> Bump<Z<0>, S<MA, UP, GA>> {
        match b(2) % 3 {
            0 => Bump::new_in(<Z<0> as Handle>::new()),
            1 => Bump::with_size_in(b(3) as usize * 16, <Z<0> as Handle>::new()),
            _ => Bump::default(),
        }
    };
    let mk_b = || -> Bump<Z<1>, S<MA, UP, GA>> {
        match b(2) % 3 {
            0 => Bump::new_in(<Z<1> as Handle>::new()),
            1 => Bump::with_size_in(b(3) as usize * 16, <Z<1> as Handle>::new()),
            _ => Bump::default(),
        }
    };
    let mut a1 = mk_a();
    let mut a2 = mk_b();
    let base1 = with_ctx(0, |c| c.slab_base());
    let base2 = with_ctx(1, |c| c.slab_base());
    for i in 0..st.recs.len() {
        let r = Rec(st.recs[i]);
        let s1 = snap_stats(a1.stats());
        let remaining = s1.current.as_ref().map(|c| c.remaining).unwrap_or(0);
        let req = decode_req(&r, remaining);
        // a pair of entry points; the second differs from the first
        let p = ENTRIES[r.b(1) as usize % ENTRIES.len()];
        let mut q = ENTRIES[r.b(2) as usize % ENTRIES.len()];
        let try_p = r.b(3) & 1 == 1;
        let mut try_q = r.b(3) & 2 == 2;
        if p == q && try_p == try_q {
            if r.b(3) & 4 == 0 {
                try_q = !try_q;
            } else {
                q = ENTRIES[(r.b(2) as usize + 1) % ENTRIES.len()];
            }
        }
        // the generic Allocator API has no panicking form and only serves layout-level requests
        let fix = |e: Entry, req: &Req| -> Entry { if matches!(e, Entry::AllocatorApi | Entry::WoDeallocScope) && (req.scope_level() || req.needs_mut() || matches!(req, Req::TryWith(..))) { Entry::ScopeInherent } else { e } };
        let (p, q) = (fix(p, &req), fix(q, &req));
        let seed = r.u64(8);
        let what = format!("{req:?} via {p:?}(try={try_p}) | {q:?}(try={try_q})");
        if let Some(l) = st.log.as_mut() {
            l.push_str(&what);
            l.push('\n');
        }
        st.ops += 1;
        st.hash ^= bsv_core::runner::fnv(what.as_bytes());
        st.hash = st.hash.wrapping_mul(0x100000001b3);
        if p != q {
            st.kinds_differ = true;
        }
        let o1 = catch_unwind(AssertUnwindSafe(|| apply(&mut a1, p, &req, try_p, seed, base1)));
        let o2 = catch_unwind(AssertUnwindSafe(|| apply(&mut a2, q, &req, try_q, seed, base2)));
        match (o1, o2) {
            (Ok(x), Ok(y)) => {
                if x.ok != y.ok {
                    st.fails.push(Failure { oracle: "C17/ok-err".into(), msg: format!("{what}: one side succeeded ({}) the other not ({})", x.ok, y.ok) });
                } else if x.off != y.off {
                    st.fails.push(Failure { oracle: "C17/offset".into(), msg: format!("{what}: blocks at different offsets {:x?} vs {:x?}", x.off, y.off) });
                } else if x.bytes != y.bytes {
                    st.fails.push(Failure { oracle: "C17/value".into(), msg: format!("{what}: value-level results differ ({} vs {} bytes)", x.bytes.len(), y.bytes.len()) });
                }
            }
            (Err(p1), Err(_)) => {
                // both panicked (e.g. capacity overflow through panicking forms): acceptable only for both
                let _ = p1;
                st.classes.insert("both_panicked");
            }
            (Err(pn), Ok(y)) | (Ok(y), Err(pn)) => {
                // a panicking form may panic exactly where its try_ twin returns Err
                if y.ok {
                    st.fails.push(Failure { oracle: "C17/panic-vs-ok".into(), msg: format!("{what}: one side panicked ({}) while the other succeeded", panic_message(&pn)) });
                }
            }
        }
        if !st.fails.is_empty() {
            return;
        }
        let n1 = snap_stats(a1.stats());
        let n2 = snap_stats(a2.stats());
        if matches!(req, Req::Reserve(_)) {
            // only the documented post-condition is comparable (typed and trait-object reserve differ)
            if let Req::Reserve(n) = req {
                for (s, w) in [(&n1, "first"), (&n2, "second")] {
                    if s.remaining < n && s.count > 0 {
                        st.fails.push(Failure { oracle: "C17/reserve-postcondition".into(), msg: format!("{what}: {w} arena has remaining {} < {n}", s.remaining) });
                    }
                }
            }
            if rel(&n1, base1) != rel(&n2, base2) {
                // the arenas legitimately diverged: stop comparing this case
                st.classes.insert("reserve_diverged");
                return;
            }
        } else if rel(&n1, base1) != rel(&n2, base2) {
            st.fails.push(Failure { oracle: "C17/state".into(), msg: format!("{what}: arena states differ after the step:\n first  {:x?}\n second {:x?}", rel(&n1, base1), rel(&n2, base2)) });
            return;
        }
        if n1.count > s1.count {
            st.crossed = true;
            st.classes.insert("crossed_chunk");
        }
    }
}

pub struct LockEngine;

impl Engine for LockEngine {
    fn name(&self) -> &'static str {
        "G/lockstep"
    }
    fn max_records(&self) -> usize {
        32
    }
    fn rule(&self) -> String {
        "generator: header (one of 6 cells: direction x (MIN_ALIGN 1 | 16 guaranteed-allocated, MIN_ALIGN 4 not guaranteed-allocated), constructor) + up to 32 requests (alloc / alloc_with / alloc_default / alloc_uninit(_slice) / alloc_slice_{copy,clone,fill,fill_with} / alloc_str / alloc_fmt / alloc_cstr_* / alloc_iter(_exact) / allocate_layout / allocate_sized / allocate_slice(_for) / prepare+commit slice fwd+rev / reserve / alloc_iter_mut(_rev) / alloc_fmt_mut / alloc_cstr_fmt_mut over u8, u32, [u8;3], Align32, ()), each applied to two arenas whose grants sit at identical slab offsets, through a generated pair of different entry points out of {inherent on Bump, inherent on BumpScope, trait on &Bump, &mut Bump, &BumpScope, &mut BumpScope, &&BumpScope, &dyn BumpAllocatorCoreScope, &mut dyn MutBumpAllocatorCoreScope, &dyn BumpAllocatorCore, Allocator::allocate} x {panicking, try_}; oracle: same ok/err, same block offset, same value bytes, same (chunk list, positions, count, allocated, remaining) after every step. non-trivial: the two entry points differ in kind, >= 5 requests, at least one request crossed a chunk boundary; distinct by hash of the request/entry list".into()
    }
    fn required_classes(&self) -> Vec<(&'static str, f64)> {
        vec![("crossed_chunk", 0.3)]
    }
    fn assumptions(&self) -> Vec<String> {
        vec!["both arenas start in identical states: same settings, same constructor, base-allocator grants placed at identical slab offsets".into()]
    }
    fn run_case(&self, bytes: &[u8], want_desc: bool) -> CaseResult {
        let (hb, rest) = bytes.split_at(bytes.len().min(16));
        let recs: Vec<&[u8]> = rest.chunks(16).collect();
        let b = |i: usize| hb.get(i).copied().unwrap_or(0);
        let cong = u64::from_le_bytes([b(8), b(9), b(10), b(11), b(12), b(13), b(14), b(15)]);
        let pol = if b(4) % 3 == 0 { GrantPolicy::Plus(1 + b(5) as usize % 40) } else { GrantPolicy::Exact };
        with_ctx(0, |c| c.reset(pol, cong, FaultPlan::default()));
        with_ctx(1, |c| c.reset(pol, cong, FaultPlan::default()));
        let mut st = St { recs, fails: vec![], classes: BTreeSet::new(), log: if want_desc { Some(String::new()) } else { None }, hash: 0xcbf29ce484222325, ops: 0, crossed: false, kinds_differ: false };
        let cell = b(0) % 6;
        if let Some(l) = st.log.as_mut() {
            l.push_str(&format!("cell {cell} (up={}, min_align={}, ga={}) ctor {} policy {pol:?}\n", cell % 2 == 0, [1, 16, 4][cell as usize / 2 % 3], cell < 4, b(2) % 3));
        }
        let r = catch_unwind(AssertUnwindSafe(|| match cell {
            0 => run_cell::<1, true, true>(&mut st, hb),
            1 => run_cell::<1, false, true>(&mut st, hb),
            2 => run_cell::<16, true, true>(&mut st, hb),
            3 => run_cell::<16, false, true>(&mut st, hb),
            4 => run_cell::<4, true, false>(&mut st, hb),
            _ => run_cell::<4, false, false>(&mut st, hb),
        }));
        if let Err(p) = r {
            st.fails.push(Failure { oracle: "panic/engine".into(), msg: format!("unexpected panic: {}", panic_message(&p)) });
        }
        let nontrivial = st.kinds_differ && st.ops >= 5 && st.crossed;
        CaseResult {
            report: CaseReport { nontrivial, hash: st.hash ^ (cell as u64) << 56, classes: st.classes.iter().copied().collect(), ops: st.ops, nops: 0, desc: st.log.take(), counters: vec![("requests", st.ops)] },
            failures: st.fails,
        }
    }
}

#[allow(unused)]
fn _unused(_: NonNull<u8>, _: pick_t) {}
#[allow(non_camel_case_types, unused)]
type pick_t = fn(usize, usize) -> usize;
#[allow(unused)]
const _P: pick_t = pick;
