//! Engine F (DESIGN.md C19): BumpPool under a generated, harness-enforced schedule. Real OS
//! threads are used; the driver hands exactly one action at a time to exactly one thread, so the
//! interleaving of pool operations is the generated one and reproducible.

use std::alloc::{GlobalAlloc, Layout, System};
use std::collections::{BTreeMap, BTreeSet};
use std::panic::{AssertUnwindSafe, catch_unwind};
use std::ptr::NonNull;
use std::sync::mpsc;
use std::sync::{Arc, Mutex};

use bump_scope::alloc::{AllocError, Allocator};
use bump_scope::settings::BumpSettings;
use bump_scope::{BumpPool, BumpPoolGuard};

use bsv_core::common::{Rec, pick};
use bsv_core::model::{check_pattern, write_pattern};
use bsv_core::runner::{CaseReport, CaseResult, Engine, Failure, panic_message};

#[derive(Default)]
struct Ledger {
    live: BTreeMap<usize, Layout>,
    grants: u64,
    releases: u64,
    errors: Vec<String>,
}

/// a `Send + Sync` base allocator with a shared ledger
#[derive(Clone)]
pub struct PoolAlloc(Arc<Mutex<Ledger>>);

unsafe impl Allocator for PoolAlloc {
    fn allocate(&self, layout: Layout) -> Result<NonNull<[u8]>, AllocError> {
        let p = unsafe { System.alloc(layout) };
        let p = NonNull::new(p).ok_or(AllocError)?;
        let mut l = self.0.lock().unwrap();
        l.grants += 1;
        l.live.insert(p.as_ptr() as usize, layout);
        Ok(NonNull::slice_from_raw_parts(p, layout.size()))
    }
    unsafe fn deallocate(&self, ptr: NonNull<u8>, layout: Layout) {
        let mut l = self.0.lock().unwrap();
        l.releases += 1;
        match l.live.remove(&(ptr.as_ptr() as usize)) {
            None => l.errors.push(format!("C19/release-unknown: {:#x} released but not live (double release?)", ptr.as_ptr() as usize)),
            Some(g) => {
                if g != layout {
                    l.errors.push(format!("C19/release-layout: granted {g:?}, released with {layout:?}"));
                }
                drop(l);
                unsafe { System.dealloc(ptr.as_ptr(), layout) };
            }
        }
    }
}

#[derive(Clone, Debug)]
enum Act {
    Get(u8, usize),
    Alloc(usize, usize, u64),
    Scoped(usize, usize),
    DropGuard(usize),
    ReadBack,
    Stop,
}

#[derive(Debug)]
enum Reply {
    Got { identity: usize, count: usize },
    GetFailed,
    GetPanicked(String),
    Allocated { ptr: usize, len: usize, seed: u64, identity: usize },
    Dropped { identity: usize },
    Read { bad: Option<String> },
    Nothing,
    Panicked(String),
}

#[derive(Clone)]
struct Block {
    ptr: usize,
    len: usize,
    seed: u64,
    writer: usize,
    identity: usize,
    /// set when the arena was handed to another thread after the write
    reissued: bool,
}

type Blocks = Arc<Mutex<Vec<Block>>>;

fn worker<const UP: bool>(
    t: usize,
    pool: &BumpPool<PoolAlloc, BumpSettings<1, UP>>,
    rx: mpsc::Receiver<Act>,
    tx: mpsc::Sender<Reply>,
    blocks: Blocks,
) {
    let mut guards: Vec<BumpPoolGuard<'_, PoolAlloc, BumpSettings<1, UP>>> = Vec::new();
    let ident = |g: &BumpPoolGuard<'_, PoolAlloc, BumpSettings<1, UP>>| -> usize { g.stats().small_to_big().next().map(|c| c.chunk_start().as_ptr() as usize).unwrap_or(0) };
    while let Ok(act) = rx.recv() {
        let reply = catch_unwind(AssertUnwindSafe(|| match act.clone() {
            Act::Get(kind, arg) => {
                if guards.len() >= 3 {
                    return Reply::Nothing;
                }
                if kind % 7 == 6 {
                    // a getter whose arena creation unwinds ("capacity overflow") while the pool's mutex is held: the
                    // mutex is poisoned from then on, which must not change anything (with an idle arena available the
                    // size is irrelevant and the call simply returns that arena)
                    return match catch_unwind(AssertUnwindSafe(|| pool.get_with_size(usize::MAX))) {
                        Ok(g) => {
                            let r = Reply::Got { identity: ident(&g), count: g.stats().count() };
                            guards.push(g);
                            r
                        }
                        Err(p) => Reply::GetPanicked(panic_message(&p)),
                    };
                }
                let g = match kind % 7 {
                    0 | 1 => Some(pool.get()),
                    2 => pool.try_get().ok(),
                    3 => Some(pool.get_with_size(64 + arg % 4000)),
                    4 => pool.try_get_with_size(64 + arg % 4000).ok(),
                    _ => Some(pool.get_with_capacity(Layout::from_size_align(arg % 3000, 1 << (arg % 6)).unwrap())),
                };
                match g {
                    Some(g) => {
                        let r = Reply::Got { identity: ident(&g), count: g.stats().count() };
                        guards.push(g);
                        r
                    }
                    None => Reply::GetFailed,
                }
            }
            Act::Alloc(gi, len, seed) => {
                if guards.is_empty() {
                    return Reply::Nothing;
                }
                let g = &guards[gi % guards.len()];
                let s = g.alloc_uninit_slice::<u8>(len);
                let ptr = s.as_ptr() as usize;
                std::mem::forget(s);
                write_pattern(ptr, len, seed);
                // (identity after the allocation: the first chunk never goes away while guards exist)
                Reply::Allocated { ptr, len, seed, identity: ident(g) }
            }
            Act::Scoped(gi, n) => {
                if guards.is_empty() {
                    return Reply::Nothing;
                }
                let k = gi % guards.len();
                let g = &mut guards[k];
                let before = (g.stats().allocated(), g.stats().current_chunk().map(|c| c.bump_position().as_ptr() as usize));
                g.scoped(|s| {
                    for i in 0..n % 6 {
                        let x = s.alloc_slice_fill_with::<u8>(1 + (n * 37 + i * 101) % 700, || 0x5A);
                        std::hint::black_box(&x);
                    }
                });
                let after = (g.stats().allocated(), g.stats().current_chunk().map(|c| c.bump_position().as_ptr() as usize));
                if before != after {
                    return Reply::Panicked(format!("C19/scope-in-guard: a scope through a pool guard did not restore the arena: {before:x?} -> {after:x?}"));
                }
                Reply::Nothing
            }
            Act::DropGuard(gi) => {
                if guards.is_empty() {
                    return Reply::Nothing;
                }
                let g = guards.remove(gi % guards.len());
                let identity = ident(&g);
                drop(g);
                Reply::Dropped { identity }
            }
            Act::ReadBack => {
                let bs = blocks.lock().unwrap();
                let mut bad = None;
                for b in bs.iter() {
                    if let Some(i) = check_pattern(b.ptr, b.len, b.seed) {
                        bad = Some(format!("byte {i} of a block of {} bytes written by thread {} (arena {:#x}, re-issued since: {}) read by thread {t}", b.len, b.writer, b.identity, b.reissued));
                        break;
                    }
                }
                Reply::Read { bad }
            }
            Act::Stop => Reply::Nothing,
        }));
        let stop = matches!(act, Act::Stop);
        let reply = match reply {
            Ok(r) => r,
            Err(p) => Reply::Panicked(panic_message(&p)),
        };
        if stop {
            drop(std::mem::take(&mut guards));
        }
        if tx.send(reply).is_err() || stop {
            break;
        }
    }
}

struct Out {
    fails: Vec<Failure>,
    classes: BTreeSet<&'static str>,
    log: Option<String>,
    steps: u64,
    nontrivial: bool,
    hash: u64,
}

fn run<const UP: bool>(recs: &[&[u8]], hdr: &[u8], want_desc: bool) -> Out {
    let b = |i: usize| hdr.get(i).copied().unwrap_or(0);
    let nthreads = 2 + b(1) as usize % 5;
    let ledger = Arc::new(Mutex::new(Ledger::default()));
    let mut pool: BumpPool<PoolAlloc, BumpSettings<1, UP>> = BumpPool::new_in(PoolAlloc(ledger.clone()));
    let blocks: Blocks = Arc::new(Mutex::new(Vec::new()));
    let mut out = Out { fails: vec![], classes: BTreeSet::new(), log: if want_desc { Some(format!("threads {nthreads} up {UP} final {}\n", b(2) % 3)) } else { None }, steps: 0, nontrivial: false, hash: 0xcbf29ce484222325 };
    let fail = |out: &mut Out, id: &str, msg: String| {
        if let Some(l) = out.log.as_mut() {
            l.push_str(&format!("  !! {id}: {msg}\n"));
        }
        if !out.fails.iter().any(|f| f.oracle == id) {
            out.fails.push(Failure { oracle: id.to_string(), msg });
        }
    };
    let rounds = if b(2) % 3 == 2 { 1 } else { 2 };
    let mut identities: BTreeSet<usize> = BTreeSet::new();
    let mut peak = 0usize;
    let mut rec_i = 0usize;
    for round in 0..rounds {
        // model of the pool for this round
        let mut live: BTreeMap<usize, usize> = BTreeMap::new(); // identity -> owner thread
        let mut idle: Vec<usize> = Vec::new();
        let mut held: Vec<usize> = vec![0; nthreads];
        let mut handover_verified = false;
        let mut two_live_threads = false;
        let per_round = if rounds == 1 { recs.len() } else if round == 0 { recs.len() * 2 / 3 } else { recs.len() };
        std::thread::scope(|s| {
            let mut chans = Vec::new();
            for t in 0..nthreads {
                let (atx, arx) = mpsc::channel::<Act>();
                let (rtx, rrx) = mpsc::channel::<Reply>();
                let pool_ref = &pool;
                let bl = blocks.clone();
                s.spawn(move || worker::<UP>(t, pool_ref, arx, rtx, bl));
                chans.push((atx, rrx));
            }
            let mut releases_seen = ledger.lock().unwrap().releases;
            while rec_i < per_round && out.fails.is_empty() {
                let r = Rec(recs[rec_i]);
                rec_i += 1;
                let t = r.b(0) as usize % nthreads;
                let act = match r.b(1) % 10 {
                    0..=2 => Act::Get(r.b(2), r.u16(3)),
                    3..=5 => Act::Alloc(r.b(2) as usize, 1 + r.u16(3) % 900, r.u64(8)),
                    6 => Act::Scoped(r.b(2) as usize, r.b(3) as usize),
                    7 | 8 => Act::DropGuard(r.b(2) as usize),
                    _ => Act::ReadBack,
                };
                if let Some(l) = out.log.as_mut() {
                    l.push_str(&format!("[round {round}] thread {t}: {act:?}\n"));
                }
                out.steps += 1;
                out.hash ^= bsv_core::runner::fnv(format!("{t}{act:?}").as_bytes());
                out.hash = out.hash.wrapping_mul(0x100000001b3);
                let grants_before = ledger.lock().unwrap().grants;
                let idle_before = idle.len();
                chans[t].0.send(act.clone()).unwrap();
                let reply = chans[t].1.recv().unwrap();
                {
                    // nothing is returned to the base allocator while the pool is alive and not being reset
                    let rel = ledger.lock().unwrap().releases;
                    if rel != releases_seen {
                        let m = format!("thread {t}: {act:?} released {} chunk(s) although the pool was neither reset nor dropped (allocations made through its guards are still reachable)", rel - releases_seen);
                        releases_seen = rel;
                        fail(&mut out, "C19/early-release", m.clone());
                        fail(&mut out, "C05/early-release", m);
                    }
                }
                match reply {
                    Reply::Got { identity, count } => {
                        let grants_after = ledger.lock().unwrap().grants;
                        if let Some(owner) = live.get(&identity) {
                            fail(&mut out, "C19/exclusive", format!("thread {t} got arena {identity:#x}, which is still held by a live guard of thread {owner}"));
                        }
                        if idle_before > 0 {
                            // an idle arena exists: it must be reused, nothing new created
                            if !idle.contains(&identity) {
                                fail(&mut out, "C19/reuse-before-create", format!("thread {t}: {idle_before} idle arena(s) existed but get returned a new arena {identity:#x}"));
                            }
                            if grants_after != grants_before {
                                fail(&mut out, "C19/reuse-before-create", format!("thread {t}: get with an idle arena available called the base allocator {} time(s)", grants_after - grants_before));
                            }
                            out.classes.insert("reused");
                        } else if identities.contains(&identity) && round == 0 {
                            fail(&mut out, "C19/exclusive", format!("thread {t}: no idle arena in the model but get returned the known arena {identity:#x}"));
                        }
                        idle.retain(|x| *x != identity);
                        // re-issue to a different thread than the last writer?
                        let mut bs = blocks.lock().unwrap();
                        for bl in bs.iter_mut().filter(|bl| bl.identity == identity && bl.writer != t) {
                            bl.reissued = true;
                        }
                        drop(bs);
                        let _ = count;
                        live.insert(identity, t);
                        identities.insert(identity);
                        held[t] += 1;
                        peak = peak.max(live.len());
                        if held.iter().filter(|h| **h > 0).count() >= 2 {
                            two_live_threads = true;
                        }
                        // after a hand-over the new holder re-reads everything allocated so far
                        if idle_before > 0 {
                            chans[t].0.send(Act::ReadBack).unwrap();
                            if let Ok(Reply::Read { bad }) = chans[t].1.recv() {
                                if let Some(m) = bad {
                                    fail(&mut out, "C19/data-intact", m);
                                }
                                if blocks.lock().unwrap().iter().any(|bl| bl.reissued && bl.writer != t) {
                                    handover_verified = true;
                                }
                            }
                        }
                    }
                    Reply::GetPanicked(m) => {
                        out.classes.insert("get_panicked");
                        if idle_before > 0 {
                            fail(&mut out, "C19/reuse-before-create", format!("thread {t}: {idle_before} idle arena(s) existed but get_with_size(usize::MAX) tried to create a new one ({m})"));
                        } else if !m.contains("capacity overflow") {
                            fail(&mut out, "panic/op", format!("thread {t}: get_with_size(usize::MAX) panicked with {m}"));
                        }
                    }
                    Reply::GetFailed => fail(&mut out, "C19/get-failed", format!("thread {t}: try_get* failed although the base allocator never refuses")),
                    Reply::Allocated { ptr, len, seed, identity } => {
                        if live.get(&identity) != Some(&t) {
                            fail(&mut out, "C19/exclusive", format!("thread {t} allocated through a guard whose arena {identity:#x} the model does not attribute to it ({:?})", live.get(&identity)));
                        }
                        // disjoint from all blocks ever handed out (nothing is freed before reset)
                        let bs = blocks.lock().unwrap();
                        if let Some(o) = bs.iter().find(|o| ptr < o.ptr + o.len && o.ptr < ptr + len) {
                            let m = format!("thread {t}: new block {ptr:#x}+{len} overlaps a block {:#x}+{} allocated earlier by thread {} through arena {:#x}", o.ptr, o.len, o.writer, o.identity);
                            drop(bs);
                            fail(&mut out, "C19/blocks-disjoint", m);
                        } else {
                            drop(bs);
                            blocks.lock().unwrap().push(Block { ptr, len, seed, writer: t, identity, reissued: false });
                        }
                    }
                    Reply::Dropped { identity } => {
                        if live.remove(&identity).is_none() {
                            fail(&mut out, "C19/exclusive", format!("thread {t} dropped a guard for arena {identity:#x} that the model does not know as live"));
                        }
                        idle.push(identity);
                        held[t] = held[t].saturating_sub(1);
                        out.classes.insert("guard_dropped");
                    }
                    Reply::Read { bad } => {
                        if let Some(m) = bad {
                            fail(&mut out, "C19/data-intact", m);
                        }
                        let bs = blocks.lock().unwrap();
                        if bs.iter().any(|bl| bl.reissued && bl.writer != t) {
                            handover_verified = true;
                        }
                    }
                    Reply::Nothing => {}
                    Reply::Panicked(m) => {
                        let id = if m.starts_with("C19/") { m.split(':').next().unwrap().to_string() } else { "panic/op".to_string() };
                        fail(&mut out, &id, format!("thread {t}: {m}"));
                    }
                }
            }
            // final read-back from thread 0, then stop everybody (guards are returned)
            chans[0].0.send(Act::ReadBack).unwrap();
            if let Ok(Reply::Read { bad: Some(m) }) = chans[0].1.recv() {
                fail(&mut out, "C19/data-intact", m);
            }
            for (atx, rrx) in &chans {
                let _ = atx.send(Act::Stop);
                let _ = rrx.recv();
            }
        });
        if two_live_threads && handover_verified {
            out.nontrivial = true;
        }
        if handover_verified {
            out.classes.insert("handover_verified");
        }
        if two_live_threads {
            out.classes.insert("two_threads_live");
        }
        if !out.fails.is_empty() {
            break;
        }
        // all guards returned
        let n = pool.bumps().len();
        if round == 0 {
            if n != identities.len() {
                fail(&mut out, "C19/created-count", format!("pool holds {n} arenas, {} distinct arenas were observed", identities.len()));
            }
            if n > peak {
                fail(&mut out, "C19/created-le-peak", format!("{n} arenas were created but at most {peak} guards were alive at the same time"));
            }
        }
        // pool-level reset / reset_to_start / drop behave like the single-arena operations
        let final_op = b(2) % 3;
        if round + 1 < rounds {
            let live_before = ledger.lock().unwrap().live.len();
            let largest: Vec<usize> = pool.bumps().iter().map(|bm| bm.stats().big_to_small().next().map(|c| c.chunk_start().as_ptr() as usize).unwrap_or(0)).collect();
            if final_op == 0 {
                pool.reset();
                let l = ledger.lock().unwrap();
                let live_now: BTreeSet<usize> = l.live.keys().copied().collect();
                let expect: BTreeSet<usize> = largest.iter().copied().filter(|x| *x != 0).collect();
                if live_now != expect {
                    drop(l);
                    fail(&mut out, "C19/pool-reset", format!("after BumpPool::reset the live grants {live_now:x?} are not exactly the largest chunk of every arena {expect:x?}"));
                }
            } else {
                pool.reset_to_start();
                if ledger.lock().unwrap().live.len() != live_before {
                    fail(&mut out, "C19/pool-reset", "BumpPool::reset_to_start released chunks".to_string());
                }
            }
            for bm in pool.bumps().iter() {
                if bm.stats().allocated() != 0 {
                    fail(&mut out, "C19/pool-reset", format!("after the pool reset an arena still reports allocated() == {}", bm.stats().allocated()));
                }
            }
            blocks.lock().unwrap().clear();
            out.classes.insert("pool_reset");
        }
    }
    drop(pool);
    let l = ledger.lock().unwrap();
    if !l.live.is_empty() {
        fail(&mut out, "C19/pool-drop", format!("{} grant(s) outstanding after the pool was dropped", l.live.len()));
    }
    for e in l.errors.clone() {
        let id = e.split(':').next().unwrap_or("C19/ledger").to_string();
        fail(&mut out, &id, e);
    }
    out
}

pub struct PoolEngine;

impl Engine for PoolEngine {
    fn name(&self) -> &'static str {
        "F/pool"
    }
    fn max_records(&self) -> usize {
        40
    }
    fn rule(&self) -> String {
        "generator: header (2..6 threads, bump direction, final operation reset | reset_to_start | drop) + a schedule of up to 40 steps (thread t, action) with actions get / try_get / get_with_size / try_get_with_size / get_with_capacity / get_with_size(usize::MAX) (which unwinds with the pool's mutex held when it has to create an arena: the mutex is poisoned afterwards), allocate a patterned block through one of the thread's guards, scoped workload through a guard, drop a guard, read back every block ever allocated; the driver hands one action at a time to one real OS thread (channel baton), so the interleaving of pool operations is exactly the generated one; after a pool reset a second round runs. oracle: model of live/idle arenas (identity = first chunk address), shared base-allocator ledger. non-trivial: >= 2 threads held guards simultaneously, a guard was dropped and its arena re-issued to another thread, and data written before the hand-over was verified after it by a different thread; distinct by hash of the schedule".into()
    }
    fn required_classes(&self) -> Vec<(&'static str, f64)> {
        vec![("reused", 0.3), ("handover_verified", 0.1), ("two_threads_live", 0.3)]
    }
    fn assumptions(&self) -> Vec<String> {
        vec!["the schedule is enforced at API-call granularity; interleavings inside get / guard drop are not explored by this tier".into()]
    }
    fn run_case(&self, bytes: &[u8], want_desc: bool) -> CaseResult {
        let (hb, rest) = bytes.split_at(bytes.len().min(16));
        let recs: Vec<&[u8]> = rest.chunks(16).collect();
        let up = hb.first().copied().unwrap_or(0) & 1 == 0;
        let o = if up { run::<true>(&recs, hb, want_desc) } else { run::<false>(&recs, hb, want_desc) };
        CaseResult {
            report: CaseReport { nontrivial: o.nontrivial, hash: o.hash, classes: o.classes.iter().copied().collect(), ops: o.steps, nops: 0, desc: o.log, counters: vec![("steps", o.steps)] },
            failures: o.fails,
        }
    }
}

// ------------------------------------------------------------------------------------------------
// Free-running mode: the same actions without the baton. The interleaving is whatever the OS produces, so a case
// is not a deterministic function of its bytes; the invariants checked are sound for every schedule.

pub struct PoolStress;

fn stress<const UP: bool>(hdr: &[u8], recs: &[&[u8]]) -> Out {
    use std::sync::atomic::{AtomicUsize, Ordering};
    let b = |i: usize| hdr.get(i).copied().unwrap_or(0);
    let nthreads = 2 + b(1) as usize % 4;
    let max_held = 1 + b(3) as usize % 2;
    let rounds = 150 + (b(4) as usize % 4) * 150;
    let ledger = Arc::new(Mutex::new(Ledger::default()));
    let mut pool: BumpPool<PoolAlloc, BumpSettings<1, UP>> = BumpPool::new_in(PoolAlloc(ledger.clone()));
    let mut out = Out { fails: vec![], classes: BTreeSet::new(), log: Some(format!("free-running: {nthreads} threads x {rounds} rounds, at most {max_held} guard(s) held per thread, up {UP}\n")), steps: 0, nontrivial: false, hash: 0xcbf29ce484222325 };
    let owners: Mutex<BTreeSet<usize>> = Mutex::new(BTreeSet::new());
    let errors: Mutex<Vec<(String, String)>> = Mutex::new(Vec::new());
    let steps = AtomicUsize::new(0);
    let barrier = std::sync::Barrier::new(nthreads);
    std::thread::scope(|s| {
        for t in 0..nthreads {
            let (pool, owners, errors, steps, barrier) = (&pool, &owners, &errors, &steps, &barrier);
            // the thread's own action list: the case's records, rotated by the thread index
            let prog: Vec<u8> = recs.iter().flat_map(|r| r.iter().copied()).collect();
            s.spawn(move || {
                let ident = |g: &BumpPoolGuard<'_, PoolAlloc, BumpSettings<1, UP>>| -> usize { g.stats().small_to_big().next().map(|c| c.chunk_start().as_ptr() as usize).unwrap_or(0) };
                let byte = |i: usize| if prog.is_empty() { (i * 31 + t) as u8 } else { prog[(i + t * 7) % prog.len()] };
                let mut held: Vec<(BumpPoolGuard<'_, PoolAlloc, BumpSettings<1, UP>>, usize, usize, u64, usize)> = Vec::new();
                barrier.wait();
                for i in 0..rounds {
                    steps.fetch_add(1, Ordering::Relaxed);
                    let x = byte(i);
                    if held.len() >= max_held || (x % 3 == 0 && !held.is_empty()) {
                        let (g, ptr, len, seed, id) = held.remove(x as usize % held.len());
                        if let Some(k) = check_pattern(ptr, len, seed) {
                            errors.lock().unwrap().push(("C19/data-intact".into(), format!("thread {t}: byte {k} of its own block changed while it held the guard (arena {id:#x})")));
                        }
                        owners.lock().unwrap().remove(&id);
                        drop(g);
                        continue;
                    }
                    let g = match x % 6 {
                        0 | 1 => pool.get(),
                        2 | 3 => match pool.try_get() {
                            Ok(g) => g,
                            Err(_) => continue,
                        },
                        4 => pool.get_with_size(64 + x as usize * 8),
                        _ => match pool.try_get_with_size(64 + x as usize * 8) {
                            Ok(g) => g,
                            Err(_) => continue,
                        },
                    };
                    let len = 1 + x as usize % 48;
                    let sl = g.alloc_uninit_slice::<u8>(len);
                    let ptr = sl.as_ptr() as usize;
                    std::mem::forget(sl);
                    let seed = (t as u64) << 32 | i as u64;
                    write_pattern(ptr, len, seed);
                    let id = ident(&g);
                    if !owners.lock().unwrap().insert(id) {
                        errors.lock().unwrap().push(("C19/exclusive".into(), format!("thread {t} got arena {id:#x} while another guard for it is live")));
                    }
                    held.push((g, ptr, len, seed, id));
                }
                for (g, ptr, len, seed, id) in held.drain(..) {
                    if let Some(k) = check_pattern(ptr, len, seed) {
                        errors.lock().unwrap().push(("C19/data-intact".into(), format!("thread {t}: byte {k} of its own block changed while it held the guard (arena {id:#x})")));
                    }
                    owners.lock().unwrap().remove(&id);
                    drop(g);
                }
            });
        }
    });
    out.steps = steps.load(std::sync::atomic::Ordering::Relaxed) as u64;
    out.hash ^= bsv_core::runner::fnv(hdr);
    for r in recs {
        out.hash = (out.hash ^ bsv_core::runner::fnv(r)).wrapping_mul(0x100000001b3);
    }
    for (id, msg) in errors.into_inner().unwrap() {
        if !out.fails.iter().any(|f| f.oracle == id) {
            out.fails.push(Failure { oracle: id, msg });
        }
    }
    // at no time can more than nthreads * max_held guards be live, whatever the schedule
    let created = pool.bumps().len();
    let bound = nthreads * max_held;
    if created > bound {
        out.fails.push(Failure { oracle: "C19/created-le-peak".into(), msg: format!("{created} arenas were created although at most {bound} guards ({nthreads} threads x {max_held}) can have been live at the same time") });
    }
    if created >= 2 {
        out.classes.insert("several_arenas");
        out.nontrivial = true;
    }
    drop(pool);
    let l = ledger.lock().unwrap();
    if !l.live.is_empty() {
        out.fails.push(Failure { oracle: "C19/pool-drop".into(), msg: format!("{} grant(s) outstanding after the pool was dropped", l.live.len()) });
    }
    for e in l.errors.clone() {
        let id = e.split(':').next().unwrap_or("C19/ledger").to_string();
        if !out.fails.iter().any(|f| f.oracle == id) {
            out.fails.push(Failure { oracle: id, msg: e });
        }
    }
    out
}

impl Engine for PoolStress {
    fn name(&self) -> &'static str {
        "F2/pool-free-running"
    }
    fn max_records(&self) -> usize {
        8
    }
    fn rule(&self) -> String {
        "generator: header (2..5 threads, at most 1..2 guards held per thread, 150..600 rounds, bump direction) + up to 8 records used as every thread's action bytes (getter get / try_get / get_with_size / try_get_with_size, block length, when to drop); the threads run freely after a barrier, so the interleaving is the operating system's and a case is not replayable bit for bit. oracle (sound for every schedule): arenas ever created <= threads x guards held per thread; no arena identity behind two live guards (owner set maintained after get / before drop); every thread's patterned blocks intact while it holds the guard; ledger clean after the pool is dropped. non-trivial: at least two arenas were created; distinct by hash of the case bytes".into()
    }
    fn required_classes(&self) -> Vec<(&'static str, f64)> {
        vec![("several_arenas", 0.2)]
    }
    fn assumptions(&self) -> Vec<String> {
        vec!["the schedule is the operating system's: a failure is real for the schedule that occurred but a replay may not reproduce it".into()]
    }
    fn run_case(&self, bytes: &[u8], _want_desc: bool) -> CaseResult {
        let (hb, rest) = bytes.split_at(bytes.len().min(16));
        let recs: Vec<&[u8]> = rest.chunks(16).collect();
        let up = hb.first().copied().unwrap_or(0) & 1 == 0;
        let o = if up { stress::<true>(hb, &recs) } else { stress::<false>(hb, &recs) };
        CaseResult {
            report: CaseReport { nontrivial: o.nontrivial, hash: o.hash, classes: o.classes.iter().copied().collect(), ops: o.steps, nops: 0, desc: o.log, counters: vec![("steps", o.steps)] },
            failures: o.fails,
        }
    }
}

#[allow(unused)]
fn _p(a: usize, b: usize) -> usize {
    pick(a, b)
}
