use std::path::PathBuf;

mod registry;
use bsv_core::evidence::Evidence;
use bsv_core::runner::{self, RunConfig};
use serde_json::json;

fn usage() -> ! {
    eprintln!("usage: vcheck <PROP> <quick|thorough> [--replay <file>] [--cases N] [--threads N]");
    std::process::exit(2);
}

fn main() {
    let args: Vec<String> = std::env::args().collect();
    if args.len() < 3 {
        usage();
    }
    let prop = args[1].clone();
    let tier = args[2].clone();
    let mut replay: Option<PathBuf> = None;
    let mut cases_override: Option<u64> = None;
    let mut threads = std::thread::available_parallelism().map(|n| n.get()).unwrap_or(16).min(16);
    let mut i = 3;
    while i < args.len() {
        match args[i].as_str() {
            "--replay" => {
                replay = Some(PathBuf::from(&args[i + 1]));
                i += 2;
            }
            "--cases" => {
                cases_override = Some(args[i + 1].parse().unwrap());
                i += 2;
            }
            "--threads" => {
                threads = args[i + 1].parse().unwrap();
                i += 2;
            }
            _ => usage(),
        }
    }
    let seed: u64 = std::env::var("VERIF_SEED").ok().and_then(|s| s.parse::<i128>().ok()).map(|v| v as u64).unwrap_or(0);
    let profile: &'static str = if cfg!(debug_assertions) { "relassert" } else { "release" };
    let specs = registry::specs();
    let Some(spec) = specs.iter().find(|s| s.id == prop) else {
        eprintln!("unknown property {prop}");
        std::process::exit(2);
    };
    // silence panic messages from expected panics inside cases
    if std::env::var("VERIF_DEBUG").is_ok() {
        std::panic::set_hook(Box::new(|i| {
            if i.payload().downcast_ref::<bsv_core::runner::Marker>().is_none() {
                eprintln!("panic: {i}");
            }
        }));
    } else {
        std::panic::set_hook(Box::new(|_| {}));
    }

    let crash_path = runner::replay_dir().join(format!("{prop}-{seed}-{profile}-crash.case"));
    bsv_core::crash::install(&prop, crash_path.to_str().unwrap());

    if let Some(path) = replay {
        // the file name tells the stage: <prop>-<seed>-<profile>-s<stage>-<n>.case; try all stages otherwise
        let mut any = false;
        for (si, st) in spec.stages.iter().enumerate() {
            let tag = format!("-s{si}-");
            let name = path.file_name().map(|n| n.to_string_lossy().to_string()).unwrap_or_default();
            if name.contains("-s") && !name.contains(&tag) && spec.stages.len() > 1 && name.matches("-s").count() > 0 && (0..spec.stages.len()).any(|k| name.contains(&format!("-s{k}-"))) {
                continue;
            }
            let engine = (st.engine)();
            let fails = runner::replay_file(engine.as_ref(), &prop, &path, true);
            if !fails.is_empty() {
                any = true;
            }
        }
        if !any {
            println!("replay {}: property {prop} held", path.display());
            std::process::exit(0);
        }
        println!("VIOLATION property={prop} replay={}", path.display());
        std::process::exit(1);
    }

    runner::set_current_prop(&prop);
    let thorough = tier == "thorough";
    bsv_core::crash::watchdog(if thorough { spec.thorough_budget_s } else { spec.quick_budget_s });
    let mut evaluations = 0u64;
    let mut distinct = 0u64;
    let mut ops_total = 0u64;
    let mut nops_total = 0u64;
    let mut classes: std::collections::BTreeMap<String, u64> = Default::default();
    let mut counters: std::collections::BTreeMap<String, u64> = Default::default();
    let mut foreign: std::collections::BTreeMap<String, u64> = Default::default();
    let mut samples: Vec<String> = Vec::new();
    let mut violations: Vec<(String, PathBuf)> = Vec::new();
    let mut health: Vec<String> = Vec::new();
    let mut rules: Vec<String> = Vec::new();
    let mut assumptions: Vec<String> = Vec::new();
    let mut names: Vec<String> = Vec::new();
    let mut wall = 0.0f64;
    let nst = spec.stages.len();
    for (si, st) in spec.stages.iter().enumerate() {
        let engine = (st.engine)();
        let cases = cases_override.unwrap_or(if thorough { st.thorough_cases } else { st.quick_cases });
        let cfg = RunConfig { prop: prop.clone(), tier: tier.clone(), seed, cases, threads, profile, stage: si };
        let out = runner::run(engine.as_ref(), &cfg);
        evaluations += out.evaluations;
        distinct += out.distinct_nontrivial;
        ops_total += out.ops_total;
        nops_total += out.nops_total;
        let pre = if nst > 1 { format!("{}:", engine.name()) } else { String::new() };
        for (k, v) in out.classes {
            *classes.entry(format!("{pre}{k}")).or_default() += v;
        }
        for (k, v) in out.counters {
            *counters.entry(format!("{pre}{k}")).or_default() += v;
        }
        for (k, v) in out.foreign {
            *foreign.entry(k).or_default() += v;
        }
        samples.extend(out.samples.into_iter().take(2));
        violations.extend(out.violations);
        health.extend(out.health_failures);
        rules.push(if nst > 1 { format!("[{}] {}", engine.name(), engine.rule()) } else { engine.rule() });
        for a in engine.assumptions() {
            if !assumptions.contains(&a) {
                assumptions.push(a);
            }
        }
        names.push(engine.name().to_string());
        wall += out.wall_s;
        if !violations.is_empty() {
            break;
        }
    }

    let mut extra = std::collections::BTreeMap::new();
    extra.insert("ops_total".to_string(), json!(ops_total));
    extra.insert("nop_records".to_string(), json!(nops_total));
    extra.insert("profile".to_string(), json!(profile));
    extra.insert("engine".to_string(), json!(names.join(" + ")));
    extra.insert("counters".to_string(), json!(counters));
    extra.insert("foreign_failures".to_string(), json!(foreign));
    extra.insert("generator_health_failures".to_string(), json!(health));
    extra.insert("threads".to_string(), json!(threads));
    let ev = Evidence {
        property_id: prop.clone(),
        tier: if thorough { "thorough".into() } else { "quick".into() },
        seed,
        evaluations,
        distinct_nontrivial: distinct,
        rule: rules.join(" || "),
        samples: samples.iter().map(|s| json!(s)).collect(),
        classes,
        extra,
        assumptions,
        wall_s: wall,
        violations: violations.len() as u64,
        exhaustive: None,
    };
    let part = std::env::var("VERIF_EVIDENCE_PART").ok();
    match part {
        Some(p) => {
            ev.write_to(&PathBuf::from(p)).expect("write evidence part");
        }
        None => {
            ev.write().expect("write evidence");
        }
    }
    for (msg, path) in &violations {
        println!("oracle: {msg}");
        println!("VIOLATION property={prop} replay={}", path.display());
    }
    runner::flush();
    if !violations.is_empty() {
        std::process::exit(1);
    }
    if !health.is_empty() {
        for h in &health {
            eprintln!("generator self-check failed: {h}");
        }
        std::process::exit(2);
    }
    println!(
        "{prop} {tier} [{profile}]: {} cases, {} distinct non-trivial, {:.1}s, no violation",
        evaluations, distinct, wall
    );
    std::process::exit(0);
}
