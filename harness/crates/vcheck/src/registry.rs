//! Property -> engine stages / budgets.

use bsv_core::runner::Engine;

pub struct Stage {
    pub engine: fn() -> Box<dyn Engine>,
    pub quick_cases: u64,
    pub thorough_cases: u64,
}

pub struct PropSpec {
    pub id: &'static str,
    pub stages: Vec<Stage>,
    /// wall budget in seconds for the watchdog (well above the expected time)
    pub quick_budget_s: u64,
    pub thorough_budget_s: u64,
}

pub fn specs() -> Vec<PropSpec> {
    let mut v = vec![
        PropSpec {
            id: "C11",
            stages: vec![Stage { engine: || Box::new(bsv_core::pure::PureBump), quick_cases: 64_000_000, thorough_cases: 2_000_000_000 }],
            quick_budget_s: 3600,
            thorough_budget_s: 21600,
        },
        PropSpec {
            id: "C12",
            stages: vec![Stage { engine: || Box::new(bsv_core::pure::PureSize), quick_cases: 48_000_000, thorough_cases: 1_600_000_000 }],
            quick_budget_s: 3600,
            thorough_budget_s: 21600,
        },
    ];
    #[cfg(feature = "big")]
    {
        macro_rules! arena {
            ($id:literal, $q:expr, $t:expr) => {
                Stage { engine: || Box::new(bsv_arena::arena_cells::ArenaEngine::new($id)), quick_cases: $q, thorough_cases: $t }
            };
        }
        macro_rules! prop {
            ($id:literal, $($st:expr),+) => {
                v.push(PropSpec { id: $id, stages: vec![$($st),+], quick_budget_s: 3600, thorough_budget_s: 21600 });
            };
        }
        prop!("C01", arena!("C01", 500_000, 6_000_000));
        prop!("C02", arena!("C02", 500_000, 6_000_000));
        prop!("C03", arena!("C03", 500_000, 6_000_000));
        prop!("C05", arena!("C05", 500_000, 6_000_000));
        prop!("C07", arena!("C07", 100_000, 1_500_000));
        prop!("C10", arena!("C10", 400_000, 5_000_000));
        prop!("C13", arena!("C13", 500_000, 6_000_000));
        prop!("C14", arena!("C14", 500_000, 6_000_000));
        prop!("C18", arena!("C18", 500_000, 6_000_000));
        macro_rules! coll {
            ($id:literal, $q:expr, $t:expr) => {
                Stage { engine: || Box::new(bsv_coll::coll::CollEngine::new($id)), quick_cases: $q, thorough_cases: $t }
            };
        }
        prop!("C06", coll!("C06", 8_000_000, 100_000_000));
        prop!("C08", coll!("C08", 8_000_000, 100_000_000), Stage { engine: || Box::new(bsv_coll::plain::PlainEngine), quick_cases: 4_000_000, thorough_cases: 50_000_000 });
        prop!("C15", coll!("C15", 3_000_000, 40_000_000));
        prop!("C16", coll!("C16", 5_000_000, 60_000_000));
        // collection buffers as blocks (C01: pairwise disjoint, C02: changed only through their owner)
        if let Some(p) = v.iter_mut().find(|p| p.id == "C01") {
            p.stages.push(coll!("C16", 2_000_000, 25_000_000));
        }
        if let Some(p) = v.iter_mut().find(|p| p.id == "C02") {
            p.stages.push(coll!("C16", 2_000_000, 25_000_000));
            p.stages.push(Stage { engine: || Box::new(bsv_coll::strings::StrEngine { split_mix: true, faulty: false }), quick_cases: 1_500_000, thorough_cases: 20_000_000 });
        }
        if let Some(p) = v.iter_mut().find(|p| p.id == "C07") {
            p.stages.push(coll!("C07", 400_000, 5_000_000));
            p.stages.push(Stage { engine: || Box::new(bsv_coll::strings::StrEngine { split_mix: false, faulty: true }), quick_cases: 1_000_000, thorough_cases: 12_000_000 });
        }
        prop!("C09", Stage { engine: || Box::new(bsv_coll::strings::StrEngine { split_mix: false, faulty: false }), quick_cases: 8_000_000, thorough_cases: 100_000_000 });
        if let Some(p) = v.iter_mut().find(|p| p.id == "C16") {
            p.stages.push(Stage { engine: || Box::new(bsv_coll::strings::StrEngine { split_mix: true, faulty: false }), quick_cases: 2_000_000, thorough_cases: 25_000_000 });
            // into_flattened, split_at_spare(_mut) live in engine B2
            p.stages.push(Stage { engine: || Box::new(bsv_coll::plain::PlainEngine), quick_cases: 1_500_000, thorough_cases: 20_000_000 });
        }
        prop!("C17", Stage { engine: || Box::new(bsv_lock::LockEngine), quick_cases: 8_000_000, thorough_cases: 100_000_000 });
        prop!(
            "C19",
            Stage { engine: || Box::new(bsv_pool::PoolEngine), quick_cases: 12_000, thorough_cases: 150_000 },
            // free-running threads (contention inside get / guard drop); each case spawns 2..5 threads
            Stage { engine: || Box::new(bsv_pool::PoolStress), quick_cases: 600, thorough_cases: 8_000 }
        );
        // C05 names the pool return: the baton pool engine's ledger oracle (nothing is released while the pool is alive,
        // also after a getter unwound with the pool's mutex held) counts for C05 as `C05/early-release`
        if let Some(p) = v.iter_mut().find(|p| p.id == "C05") {
            p.stages.push(Stage { engine: || Box::new(bsv_pool::PoolEngine), quick_cases: 6_000, thorough_cases: 80_000 });
        }
        // C12: the real-arena half rides on engine A
        if let Some(p) = v.iter_mut().find(|p| p.id == "C12") {
            p.stages.push(arena!("C12", 300_000, 4_000_000));
        }
    }
    v
}
