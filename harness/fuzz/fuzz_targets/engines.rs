#![no_main]
//! One libFuzzer target over all byte-driven engines: the first byte selects the engine / mix, the
//! rest is the case (header || records). Any oracle failure aborts with the oracle message, so the
//! semantic oracles (not just crashes) drive the campaign.
use bsv_core::runner::Engine;
use libfuzzer_sys::fuzz_target;

fn engines() -> Vec<Box<dyn Engine>> {
    let mut v: Vec<Box<dyn Engine>> = Vec::new();
    for p in ["C01", "C02", "C03", "C05", "C07", "C10", "C12", "C13", "C14", "C18"] {
        v.push(Box::new(bsv_arena::arena_cells::ArenaEngine::new(p)));
    }
    for p in ["C06", "C08", "C15", "C16"] {
        v.push(Box::new(bsv_coll::coll::CollEngine::new(p)));
    }
    v.push(Box::new(bsv_coll::strings::StrEngine { split_mix: false, faulty: false }));
    v.push(Box::new(bsv_lock::LockEngine));
    v.push(Box::new(bsv_core::pure::PureBump));
    v.push(Box::new(bsv_core::pure::PureSize));
    v
}

thread_local! {
    static ENGINES: Vec<Box<dyn Engine>> = engines();
}

static INIT: std::sync::Once = std::sync::Once::new();

fuzz_target!(|data: &[u8]| {
    // libfuzzer-sys installs a panic hook that aborts on *any* panic; the engines catch expected
    // panics (out-of-range arguments, injected callback panics) with catch_unwind, so replace it
    // and signal real failures with an explicit abort instead
    INIT.call_once(|| std::panic::set_hook(Box::new(|_| {})));
    if data.is_empty() {
        return;
    }
    ENGINES.with(|es| {
        let e = &es[data[0] as usize % es.len()];
        let res = e.run_case(&data[1..], false);
        if let Some(f) = res.failures.first() {
            // deliberate panics of the harness itself (panic injection markers) never reach here
            eprintln!("ORACLE FAILURE {}: {}", f.oracle, f.msg);
            std::process::abort();
        }
    });
});
