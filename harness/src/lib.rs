//! bsv: property-based testing / fuzzing harness for bluurryy/bump-scope (see /verif/DESIGN.md).
pub mod crash;
pub mod evidence;
pub mod pure;
pub mod runner;
pub mod registry;
