use std::path::PathBuf;

use bsv::evidence::Evidence;
use bsv::registry;
use bsv::runner::{self, RunConfig};
use serde_json::json;

fn usage() -> ! {
    eprintln!("usage: vcheck <PROP> <quick|thorough> [--replay <file>] [--cases N] [--threads N]");
    std::process::exit(2);
}

fn main() {
    let args: Vec<String> = std::env::args().collect();
    if args.len() < 3 {
        usage();
    }
    let prop = args[1].clone();
    let tier = args[2].clone();
    let mut replay: Option<PathBuf> = None;
    let mut cases_override: Option<u64> = None;
    let mut threads = std::thread::available_parallelism().map(|n| n.get()).unwrap_or(16).min(16);
    let mut i = 3;
    while i < args.len() {
        match args[i].as_str() {
            "--replay" => {
                replay = Some(PathBuf::from(&args[i + 1]));
                i += 2;
            }
            "--cases" => {
                cases_override = Some(args[i + 1].parse().unwrap());
                i += 2;
            }
            "--threads" => {
                threads = args[i + 1].parse().unwrap();
                i += 2;
            }
            _ => usage(),
        }
    }
    let seed: u64 = std::env::var("VERIF_SEED").ok().and_then(|s| s.parse::<i128>().ok()).map(|v| v as u64).unwrap_or(0);
    let profile: &'static str = if cfg!(debug_assertions) { "relassert" } else { "release" };
    let specs = registry::specs();
    let Some(spec) = specs.iter().find(|s| s.id == prop) else {
        eprintln!("unknown property {prop}");
        std::process::exit(2);
    };
    let engine = (spec.engine)();

    // silence panic messages from expected panics inside cases
    if std::env::var("VERIF_DEBUG").is_ok() {
        std::panic::set_hook(Box::new(|i| {
            if i.payload().downcast_ref::<bsv::runner::Marker>().is_none() {
                eprintln!("panic: {i}");
            }
        }));
    } else {
        std::panic::set_hook(Box::new(|_| {}));
    }

    let crash_path = runner::replay_dir().join(format!("{prop}-{seed}-{profile}-crash.case"));
    bsv::crash::install(&prop, crash_path.to_str().unwrap());

    if let Some(path) = replay {
        let fails = runner::replay_file(engine.as_ref(), &prop, &path, true);
        if fails.is_empty() {
            println!("replay {}: property {prop} held", path.display());
            std::process::exit(0);
        }
        println!("VIOLATION property={prop} replay={}", path.display());
        std::process::exit(1);
    }

    let thorough = tier == "thorough";
    let cases = cases_override.unwrap_or(if thorough { spec.thorough_cases } else { spec.quick_cases });
    bsv::crash::watchdog(if thorough { spec.thorough_budget_s } else { spec.quick_budget_s });
    let cfg = RunConfig { prop: prop.clone(), tier: tier.clone(), seed, cases, threads, profile };
    let out = runner::run(engine.as_ref(), &cfg);

    let mut extra = std::collections::BTreeMap::new();
    extra.insert("ops_total".to_string(), json!(out.ops_total));
    extra.insert("nop_records".to_string(), json!(out.nops_total));
    extra.insert("profile".to_string(), json!(profile));
    extra.insert("engine".to_string(), json!(engine.name()));
    extra.insert("counters".to_string(), json!(out.counters));
    extra.insert("foreign_failures".to_string(), json!(out.foreign));
    extra.insert("generator_health_failures".to_string(), json!(out.health_failures));
    extra.insert("threads".to_string(), json!(threads));
    // Partial evidence for this profile; the ./check driver merges profiles.
    let ev = Evidence {
        property_id: prop.clone(),
        tier: if thorough { "thorough".into() } else { "quick".into() },
        seed,
        evaluations: out.evaluations,
        distinct_nontrivial: out.distinct_nontrivial,
        rule: engine.rule(),
        samples: out.samples.iter().map(|s| json!(s)).collect(),
        classes: out.classes.clone(),
        extra,
        assumptions: engine.assumptions(),
        wall_s: out.wall_s,
        violations: out.violations.len() as u64,
        exhaustive: None,
    };
    let part = std::env::var("VERIF_EVIDENCE_PART").ok();
    match part {
        Some(p) => {
            ev.write_to(&PathBuf::from(p)).expect("write evidence part");
        }
        None => {
            ev.write().expect("write evidence");
        }
    }
    for (msg, path) in &out.violations {
        println!("oracle: {msg}");
        println!("VIOLATION property={prop} replay={}", path.display());
    }
    runner::flush();
    if !out.violations.is_empty() {
        std::process::exit(1);
    }
    if !out.health_failures.is_empty() {
        for h in &out.health_failures {
            eprintln!("generator self-check failed: {h}");
        }
        std::process::exit(2);
    }
    println!(
        "{prop} {tier} [{profile}]: {} cases, {} distinct non-trivial, {:.1}s, no violation",
        out.evaluations, out.distinct_nontrivial, out.wall_s
    );
    std::process::exit(0);
}
