//! Property -> engine / budgets.

use crate::runner::Engine;

pub struct PropSpec {
    pub id: &'static str,
    pub engine: fn() -> Box<dyn Engine>,
    pub quick_cases: u64,
    pub thorough_cases: u64,
    /// wall budget in seconds for the watchdog (3x expected)
    pub quick_budget_s: u64,
    pub thorough_budget_s: u64,
}

pub fn specs() -> Vec<PropSpec> {
    let mut v = vec![
        PropSpec {
            id: "C11",
            engine: || Box::new(crate::pure::PureBump),
            quick_cases: 32_000_000,
            thorough_cases: 1_600_000_000,
            quick_budget_s: 300,
            thorough_budget_s: 3600,
        },
        PropSpec {
            id: "C12",
            engine: || Box::new(crate::pure::PureSize),
            quick_cases: 32_000_000,
            thorough_cases: 1_600_000_000,
            quick_budget_s: 300,
            thorough_budget_s: 3600,
        },
    ];
    #[cfg(feature = "big")]
    {
        macro_rules! arena {
            ($id:literal, $q:expr, $t:expr) => {
                v.push(PropSpec {
                    id: $id,
                    engine: || Box::new(crate::arena_cells::ArenaEngine::new($id)),
                    quick_cases: $q,
                    thorough_cases: $t,
                    quick_budget_s: 900,
                    thorough_budget_s: 7200,
                });
            };
        }
        arena!("C01", 24_000, 400_000);
        arena!("C02", 24_000, 400_000);
        arena!("C03", 16_000, 200_000);
        arena!("C05", 20_000, 300_000);
        arena!("C07", 30_000, 400_000);
        arena!("C10", 20_000, 300_000);
        arena!("C13", 20_000, 300_000);
        arena!("C14", 16_000, 200_000);
        arena!("C18", 16_000, 200_000);
    }
    v
}
