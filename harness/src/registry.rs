//! Property -> engine / budgets.

use crate::runner::Engine;

pub struct PropSpec {
    pub id: &'static str,
    pub engine: fn() -> Box<dyn Engine>,
    pub quick_cases: u64,
    pub thorough_cases: u64,
    /// wall budget in seconds for the watchdog (3x expected)
    pub quick_budget_s: u64,
    pub thorough_budget_s: u64,
}

pub fn specs() -> Vec<PropSpec> {
    vec![
        PropSpec {
            id: "C11",
            engine: || Box::new(crate::pure::PureBump),
            quick_cases: 32_000_000,
            thorough_cases: 1_600_000_000,
            quick_budget_s: 300,
            thorough_budget_s: 3600,
        },
        PropSpec {
            id: "C12",
            engine: || Box::new(crate::pure::PureSize),
            quick_cases: 32_000_000,
            thorough_cases: 1_600_000_000,
            quick_budget_s: 300,
            thorough_budget_s: 3600,
        },
    ]
}
