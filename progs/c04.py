#!/usr/bin/env python3
"""Engine E (DESIGN.md C04): a generated corpus of safe programs decided by the compiler.

Every must-fail program lets a value that points into scope memory escape through one of the
routes named in the property and *uses* it after the invalidation point; its control twin differs
only in that the value is used before that point. must-fail bodies live in one library crate
(borrow/lifetime class: all errors come from the borrow checker, which runs per function, so one
`cargo check` decides all of them), trait-class and const-eval-class programs are built one by
one. Oracle: rustc's verdict, attributed to a function through the primary span of the error.
"""
import hashlib
import json
import os
import random
import shutil
import subprocess
import sys
import time
from concurrent.futures import ThreadPoolExecutor

VERIF = os.path.dirname(os.path.dirname(os.path.abspath(__file__)))
WORK = os.path.join(VERIF, "progs", "work")
REPO = os.environ.get("VERIF_REPO", "/repo")

PRELUDE = """#![allow(unused, dropping_references, dropping_copy_types, clippy::all)]
use bump_scope::{Bump, BumpScope, BumpBox, BumpVec, BumpString, MutBumpVec, MutBumpVecRev, MutBumpString, FixedBumpVec, FixedBumpString, BumpPool, WithoutDealloc, WithoutShrink};
use bump_scope::alloc::Global;
use bump_scope::settings::{BumpSettings, BumpAllocatorSettings};
use bump_scope::traits::*;
use core::alloc::Layout;
fn touch<T: ?Sized>(_: &T) {}
"""

# (name, expression over handle `h`, needs_mut)
PRODUCERS = [
    ("alloc", "h.alloc(1u32)", False),
    ("try_alloc", "h.try_alloc(1u32).unwrap()", False),
    ("alloc_with", "h.alloc_with(|| 1u32)", False),
    ("alloc_default", "h.alloc_default::<u32>()", False),
    ("alloc_slice_copy", "h.alloc_slice_copy(&[1u8, 2, 3])", False),
    ("alloc_slice_clone", "h.alloc_slice_clone(&[String::new()])", False),
    ("alloc_slice_fill", "h.alloc_slice_fill(3, 1u8)", False),
    ("alloc_slice_fill_with", "h.alloc_slice_fill_with(3, || 1u8)", False),
    ("alloc_slice_move", "h.alloc_slice_move([1u8, 2, 3])", False),
    ("alloc_str", "h.alloc_str(\"a\")", False),
    ("alloc_fmt", "h.alloc_fmt(format_args!(\"{}\", 1))", False),
    ("alloc_cstr", "h.alloc_cstr(c\"a\")", False),
    ("alloc_cstr_from_str", "h.alloc_cstr_from_str(\"a\")", False),
    ("alloc_cstr_fmt", "h.alloc_cstr_fmt(format_args!(\"{}\", 1))", False),
    ("alloc_iter", "h.alloc_iter([1u8, 2, 3])", False),
    ("alloc_iter_exact", "h.alloc_iter_exact([1u8, 2, 3])", False),
    ("alloc_uninit", "h.alloc_uninit::<u32>()", False),
    ("alloc_uninit_slice", "h.alloc_uninit_slice::<u32>(3)", False),
    ("alloc_uninit_slice_for", "h.alloc_uninit_slice_for(&[1u8, 2])", False),
    ("alloc_try_with", "h.alloc_try_with(|| Ok::<u32, ()>(1)).unwrap()", False),
    ("try_alloc_slice_copy", "h.try_alloc_slice_copy(&[1u8, 2, 3]).unwrap()", False),
    ("try_alloc_str", "h.try_alloc_str(\"a\").unwrap()", False),
    ("try_alloc_iter", "h.try_alloc_iter([1u8, 2, 3]).unwrap()", False),
    ("bumpvec_into_slice", "BumpVec::from_iter_in([1u8, 2, 3], &*h).into_slice()", False),
    ("bumpvec_into_boxed_slice", "BumpVec::from_iter_in([1u8, 2, 3], &*h).into_boxed_slice()", False),
    ("bumpvec_into_fixed_vec", "BumpVec::from_iter_in([1u8, 2, 3], &*h).into_fixed_vec()", False),
    ("bumpvec_itself", "BumpVec::from_iter_in([1u8, 2, 3], &*h)", False),
    ("bumpstring_into_str", "BumpString::from_str_in(\"a\", &*h).into_str()", False),
    ("bumpstring_into_boxed_str", "BumpString::from_str_in(\"a\", &*h).into_boxed_str()", False),
    ("bumpstring_into_cstr", "BumpString::from_str_in(\"a\", &*h).into_cstr()", False),
    ("fixedvec_into_slice", "FixedBumpVec::<u8>::with_capacity_in(3, &*h).into_slice()", False),
    ("fixedstring_into_str", "FixedBumpString::with_capacity_in(3, &*h).into_str()", False),
    ("stats", "h.stats()", False),
    ("stats_chunk", "h.stats().current_chunk()", False),
    ("any_stats", "BumpAllocatorCore::any_stats(&*h)", False),
    # the type-erasing conversions must carry the lifetime over (From<Stats<'a>> for AnyStats<'a> ...)
    ("any_stats_from_stats", "bump_scope::stats::AnyStats::from(h.stats())", False),
    ("any_chunk_from_chunk", "bump_scope::stats::AnyChunk::from(h.stats().current_chunk().unwrap())", False),
    ("any_prev_iter_from_iter", "bump_scope::stats::AnyChunkPrevIter::from(h.stats().big_to_small())", False),
    ("any_next_iter_from_iter", "bump_scope::stats::AnyChunkNextIter::from(h.stats().small_to_big())", False),
    ("allocator", "h.allocator()", False),
    ("claim", "h.claim()", False),
    ("alloc_iter_mut", "h.alloc_iter_mut([1u8, 2, 3])", True),
    ("alloc_iter_mut_rev", "h.alloc_iter_mut_rev([1u8, 2, 3])", True),
    ("alloc_fmt_mut", "h.alloc_fmt_mut(format_args!(\"{}\", 1))", True),
    ("alloc_cstr_fmt_mut", "h.alloc_cstr_fmt_mut(format_args!(\"{}\", 1))", True),
    ("alloc_try_with_mut", "h.alloc_try_with_mut(|| Ok::<u32, ()>(1)).unwrap()", True),
    ("mutbumpvec_into_slice", "MutBumpVec::from_iter_in([1u8, 2, 3], &mut *h).into_slice()", True),
    ("mutbumpvec_into_boxed_slice", "MutBumpVec::from_iter_in([1u8, 2, 3], &mut *h).into_boxed_slice()", True),
    ("mutbumpvecrev_into_slice", "MutBumpVecRev::from_iter_in([1u8, 2, 3], &mut *h).into_slice()", True),
    ("mutbumpstring_into_str", "MutBumpString::from_str_in(\"a\", &mut *h).into_str()", True),
    ("mutbumpstring_into_cstr", "MutBumpString::from_str_in(\"a\", &mut *h).into_cstr()", True),
    ("scope_guard", "h.scope_guard()", True),
    ("by_value", "h.by_value()", True),
]

# handle adaptors: how the producer's `h` is derived from the scope reference `s: &mut BumpScope`
# (name, prelude statements, expression bound to h, supports_mut)
HANDLES = [
    ("scope", "", "s", True),
    ("claim_guard", "let mut c = s.claim();", "(&mut *c)", True),
    ("dyn_scope", "let d: &dyn BumpAllocatorCoreScope<'_> = &*s;", "(&d)", False),
    ("dyn_mut_scope", "let mut d: &mut dyn MutBumpAllocatorCoreScope<'_> = &mut *s;", "(&mut d)", True),
    ("without_dealloc", "let w = WithoutDealloc(&*s);", "(&w)", False),
    ("without_shrink", "let w = WithoutShrink(&*s);", "(&w)", False),
]

# producers that only exist on Bump/BumpScope themselves (inherent / BumpAllocatorScope)
SCOPE_ONLY = {"any_stats_from_stats", "any_chunk_from_chunk", "any_prev_iter_from_iter", "any_next_iter_from_iter", "stats", "stats_chunk", "allocator", "claim", "scope_guard", "by_value", "alloc_try_with", "alloc_try_with_mut"}

# escape routes: (name, must-fail template, control template). {P} = producer expr with h bound.
# In templates, `s` is a `&mut BumpScope` (or Bump where noted).
ROUTES = [
    ("R1_return_from_scoped",
     "let mut bump: Bump = Bump::new();\nlet x = bump.scoped(|s| {{ {HP} let h = {H}; {P} }});\ntouch(&x);",
     "let mut bump: Bump = Bump::new();\nbump.scoped(|s| {{ {HP} let h = {H}; let x = {P}; touch(&x); }});"),
    ("R1b_return_from_scoped_aligned",
     "let mut bump: Bump = Bump::new();\nlet x = bump.scoped_aligned::<8, _>(|s| {{ {HP} let h = {H}; {P} }});\ntouch(&x);",
     "let mut bump: Bump = Bump::new();\nbump.scoped_aligned::<8, _>(|s| {{ {HP} let h = {H}; let x = {P}; touch(&x); }});"),
    ("R2_outer_variable",
     "let mut bump: Bump = Bump::new();\nlet mut o = None;\nbump.scoped(|s| {{ {HP} let h = {H}; o = Some({P}); }});\ntouch(&o);",
     "let mut bump: Bump = Bump::new();\nlet mut o = None;\nbump.scoped(|s| {{ {HP} let h = {H}; let v = {P}; touch(&v); o = Some(1); }});\ntouch(&o);"),
    ("R3_guard_drop",
     "let mut bump: Bump = Bump::new();\nlet x;\n{{ let mut g = bump.scope_guard(); let s = g.scope(); {HP} let h = {H}; x = {P}; }}\ntouch(&x);",
     "let mut bump: Bump = Bump::new();\n{{ let mut g = bump.scope_guard(); let s = g.scope(); {HP} let h = {H}; let x = {P}; touch(&x); }}"),
    ("R4_second_scope",
     "let mut bump: Bump = Bump::new();\nlet mut g = bump.scope_guard();\nlet x = {{ let s = g.scope(); {HP} let h = {H}; {P} }};\nlet _y = g.scope();\ntouch(&x);",
     "let mut bump: Bump = Bump::new();\nlet mut g = bump.scope_guard();\n{{ let s = g.scope(); {HP} let h = {H}; let x = {P}; touch(&x); }}\nlet _y = g.scope();"),
    ("R5_guard_reset",
     "let mut bump: Bump = Bump::new();\nlet mut g = bump.scope_guard();\nlet x = {{ let s = g.scope(); {HP} let h = {H}; {P} }};\ng.reset();\ntouch(&x);",
     "let mut bump: Bump = Bump::new();\nlet mut g = bump.scope_guard();\n{{ let s = g.scope(); {HP} let h = {H}; let x = {P}; touch(&x); }}\ng.reset();"),
    ("R10_aligned_inner_scope",
     "let mut bump: Bump = Bump::new();\nlet x = bump.as_mut_scope().aligned::<8, _>(|a| a.scoped(|s| {{ {HP} let h = {H}; {P} }}));\ntouch(&x);",
     "let mut bump: Bump = Bump::new();\nbump.as_mut_scope().aligned::<8, _>(|a| a.scoped(|s| {{ {HP} let h = {H}; let x = {P}; touch(&x); }}));"),
    ("R1c_claim_scoped",
     "let mut bump: Bump = Bump::new();\nlet x = bump.claim().scoped(|s| {{ {HP} let h = {H}; {P} }});\ntouch(&x);",
     "let mut bump: Bump = Bump::new();\nbump.claim().scoped(|s| {{ {HP} let h = {H}; let x = {P}; touch(&x); }});"),
]

# routes on an owned Bump (handle is the Bump itself): (name, invalidation statement)
BUMP_ROUTES = [
    ("R6_bump_reset", "bump.reset();"),
    ("R7_bump_reset_to_start", "bump.reset_to_start();"),
    ("R8_bump_drop", "drop(bump);"),
    ("R8b_bump_moved", "let moved = bump; touch(&moved);"),
    ("R8c_with_settings", "let bump2: Bump<Global, BumpSettings<8>> = bump.with_settings(); touch(&bump2);"),
    ("R8d_into_raw", "let raw = bump.into_raw(); touch(&raw);"),
]

POOL_ROUTES = [
    ("R9_pool_reset", "pool.reset();"),
    ("R9b_pool_reset_to_start", "pool.reset_to_start();"),
    ("R9c_pool_drop", "drop(pool);"),
    ("R9d_pool_bumps", "let _b = pool.bumps();"),
]



# route R12: while a handle derived from a parent (an owned scope from by_value, a scope behind a guard,
# a claim guard, a settings-converted exclusive borrow, an exclusive-borrow collection, as_mut_scope of a
# Bump) is alive, the parent must not be usable in a conflicting way - otherwise the parent could open
# and close a scope (or reset) underneath allocations made through the child.
# (name, declaration of `c` from parent `s`, expression producing x through c, child holds the parent exclusively)
ALIAS_CHILDREN = [
    ("by_value", "let mut c = s.by_value();", "c.alloc_str(\"a\")", True),
    ("try_by_value", "let mut c = s.try_by_value().unwrap();", "c.alloc_str(\"a\")", True),
    ("guard_scope", "let mut g0 = s.scope_guard(); let c = g0.scope();", "c.alloc_str(\"a\")", True),
    ("claim", "let c = s.claim();", "c.alloc_str(\"a\")", False),
    ("borrow_mut_with_settings", "let c: &mut BumpScope<Global, BumpSettings<8>> = s.borrow_mut_with_settings();", "c.alloc_str(\"a\")", True),
    ("mut_bump_vec", "let mut c: MutBumpVec<u8, _> = MutBumpVec::new_in(&mut *s);", "{ c.push(1u8); c.len() }", True),
    ("mut_bump_string", "let mut c = MutBumpString::new_in(&mut *s);", "{ c.push('a'); c.len() }", True),
    ("bump_vec_shared", "let mut c: BumpVec<u8, _> = BumpVec::new_in(&*s);", "{ c.push(1u8); c.len() }", False),
    # (Stats<'a> is deliberately not a child here: it carries the scope's lifetime, not a borrow of the
    #  handle, and chunk headers stay valid for that lifetime - holding it across parent operations is allowed)
]
# (name, statement using the parent `s`, needs the parent exclusively)
ALIAS_PARENT_USES = [
    ("scope_guard", "let _g = s.scope_guard();", True),
    ("scoped", "s.scoped(|i| { touch(&i.alloc(1u8)); });", True),
    ("by_value", "let _v = s.by_value();", True),
    ("alloc_iter_mut", "let _m = s.alloc_iter_mut([1u8, 2]);", True),
    ("alloc", "let _y = s.alloc_str(\"b\");", False),
]


def gen_alias_programs():
    for (cn, decl, prod, cexcl) in ALIAS_CHILDREN:
        for (un, use, uexcl) in ALIAS_PARENT_USES:
            if not (cexcl or uexcl):
                continue
            mf = f"let mut bump: Bump = Bump::new();\nbump.scoped(|s| {{ {decl} let x = {prod}; {use} touch(&x); touch(&c); }});"
            ctl = f"let mut bump: Bump = Bump::new();\nbump.scoped(|s| {{ {{ {decl} let x = {prod}; touch(&x); touch(&c); }} {use} }});"
            yield (f"R12_parent_{un}_while__{cn}", mf, ctl)
    # the owned Bump as parent
    for (cn, decl, cexcl) in [("as_mut_scope", "let c = bump.as_mut_scope();", True), ("as_scope", "let c = bump.as_scope();", False), ("claim", "let c = bump.claim();", False)]:
        for (un, use, uexcl) in [("reset", "bump.reset();", True), ("scoped", "bump.scoped(|i| { touch(&i.alloc(1u8)); });", True), ("alloc", "let _y = bump.alloc(1u8);", False)]:
            if not (cexcl or uexcl):
                continue
            mf = f"let mut bump: Bump = Bump::new();\n{decl} let x = c.alloc_str(\"a\"); {use} touch(&x); touch(&c);"
            ctl = f"let mut bump: Bump = Bump::new();\n{{ {decl} let x = c.alloc_str(\"a\"); touch(&x); touch(&c); }} {use}"
            yield (f"R12_bump_{un}_while__{cn}", mf, ctl)


# route R13: a value that lives in an inner scope combined with a longer-lived allocator must not produce
# something that outlives the inner scope (from_parts / into_vec / into_string tie the buffer's lifetime to
# the allocator's scope lifetime).
TWO_ALLOC = [
    ("bumpvec_from_parts_into_slice", "let f = FixedBumpVec::<u8>::with_capacity_in(4, &*s);", "BumpVec::from_parts(f, &outer).into_slice()"),
    ("bumpvec_from_parts_into_boxed_slice", "let f = FixedBumpVec::<u8>::with_capacity_in(4, &*s);", "BumpVec::from_parts(f, &outer).into_boxed_slice()"),
    ("bumpvec_from_parts_into_fixed_vec", "let f = FixedBumpVec::<u8>::with_capacity_in(4, &*s);", "BumpVec::from_parts(f, &outer).into_fixed_vec()"),
    ("bumpvec_from_parts_itself", "let f = FixedBumpVec::<u8>::with_capacity_in(4, &*s);", "BumpVec::from_parts(f, &outer)"),
    ("fixed_into_vec", "let f = FixedBumpVec::<u8>::with_capacity_in(4, &*s);", "f.into_vec(&outer)"),
    ("fixed_into_vec_into_slice", "let f = FixedBumpVec::<u8>::with_capacity_in(4, &*s);", "f.into_vec(&outer).into_slice()"),
    ("bumpstring_from_parts_into_str", "let f = FixedBumpString::with_capacity_in(4, &*s);", "BumpString::from_parts(f, &outer).into_str()"),
    ("bumpstring_from_parts_into_boxed_str", "let f = FixedBumpString::with_capacity_in(4, &*s);", "BumpString::from_parts(f, &outer).into_boxed_str()"),
    ("bumpstring_from_parts_itself", "let f = FixedBumpString::with_capacity_in(4, &*s);", "BumpString::from_parts(f, &outer)"),
    ("fixed_string_into_string", "let f = FixedBumpString::with_capacity_in(4, &*s);", "f.into_string(&outer)"),
    ("fixed_string_into_string_into_str", "let f = FixedBumpString::with_capacity_in(4, &*s);", "f.into_string(&outer).into_str()"),
]


def gen_two_alloc_programs():
    for (n, decl, prod) in TWO_ALLOC:
        mf = f"let outer: Bump = Bump::new();\nlet mut inner: Bump = Bump::new();\nlet x = inner.scoped(|s| {{ {decl} {prod} }});\ntouch(&x);"
        ctl = f"let outer: Bump = Bump::new();\nlet mut inner: Bump = Bump::new();\ninner.scoped(|s| {{ {decl} let x = {prod}; touch(&x); }});"
        yield (f"R13_inner_value_outer_allocator__{n}", mf, ctl)
        # guard variant
        mf = f"let outer: Bump = Bump::new();\nlet mut inner: Bump = Bump::new();\nlet x;\n{{ let mut g = inner.scope_guard(); let s = g.scope(); {decl} x = {prod}; }}\ntouch(&x);"
        ctl = f"let outer: Bump = Bump::new();\nlet mut inner: Bump = Bump::new();\n{{ let mut g = inner.scope_guard(); let s = g.scope(); {decl} let x = {prod}; touch(&x); }}"
        yield (f"R13g_inner_value_outer_allocator__{n}", mf, ctl)


# route R14: an owned copy of arena B's scope (by_value, guard.scope()) must not be storable in arena A through an
# exclusive reference to A's scope (as_mut_scope, a claim guard, the scope handed to a closure): A would then
# allocate from B's chunks, and a reference borrowed from A would outlive B's reset / drop (and both would release
# the same chunks). (name, declaration of `t: &mut BumpScope` (or a guard that derefs to one) from bump1)
FOREIGN_TARGETS = [
    ("as_mut_scope", "let t = bump1.as_mut_scope();", "*t"),
    ("claim_guard", "let mut t = bump1.claim();", "*t"),
    ("guard_scope", "let mut g1 = bump1.scope_guard(); let t = g1.scope();", "*t"),
]
FOREIGN_SOURCES = [
    ("by_value", "", "bump2.as_mut_scope().by_value()"),
    ("try_by_value", "", "bump2.as_mut_scope().try_by_value().unwrap()"),
    ("guard_scope_by_value", "let mut g2 = bump2.scope_guard();", "g2.scope().by_value()"),
    ("claim_by_value", "let mut c2 = bump2.claim();", "c2.by_value()"),
]


def gen_foreign_scope_programs():
    for (tn, tdecl, place) in FOREIGN_TARGETS:
        for (sn, sdecl, sexpr) in FOREIGN_SOURCES:
            head = "let mut bump1: Bump = Bump::new();\nlet mut bump2: Bump = Bump::new();\n"
            mf = head + f"{{ {sdecl} {tdecl} {place} = {sexpr}; }}\nlet x = bump1.alloc_str(\"a\");\ndrop(bump2);\ntouch(&x);"
            ctl = head + f"{{ {sdecl} {tdecl} let v = {sexpr}; touch(&v); touch(&{place}); }}\nlet x = bump1.alloc_str(\"a\");\ndrop(bump2);\ntouch(&x);"
            yield (f"R14_foreign_scope_copy__{tn}__{sn}", mf, ctl)


def known_findings():
    try:
        return [k for k in json.load(open(os.path.join(VERIF, "known_findings.json"))) if k.get("property") == "C04" and k.get("status") == "known"]
    except Exception:
        return []


def gen_borrow_programs():
    """yield (id, must_fail_body, control_body or None)"""
    for (pn, pexpr, pmut) in PRODUCERS:
        for (hn, hp, hexpr, hmut) in HANDLES:
            if pmut and not hmut:
                continue
            if pn in SCOPE_ONLY and hn not in ("scope", "claim_guard"):
                continue
            if hn in ("dyn_scope", "dyn_mut_scope") and pn in ("any_stats",):
                pass
            for (rn, mf, ctl) in ROUTES:
                if hn == "claim_guard" and rn == "R1c_claim_scoped":
                    continue
                hdecl = "let mut h = " if pmut else "let h = "
                h_expr = hexpr
                if not pmut and hn == "scope":
                    h_expr = "&*s"
                if not pmut and hn == "claim_guard":
                    h_expr = "&*c"
                body = mf.format(HP=hp, H=h_expr, P=pexpr).replace("let h = ", hdecl)
                cbody = ctl.format(HP=hp, H=h_expr, P=pexpr).replace("let h = ", hdecl) if ctl else None
                yield (f"{rn}__{hn}__{pn}", body, cbody)
        # owned Bump routes (shared producers through &bump, mut producers through &mut bump)
        for (rn, inval) in BUMP_ROUTES:
            if pn == "by_value":
                continue
            href = "&mut bump" if pmut else "&bump"
            hd = "let mut h = " if pmut else "let h = "
            mf = f"let mut bump: Bump = Bump::new();\nlet x = {{ {hd}{href}; {pexpr} }};\n{inval}\ntouch(&x);"
            ctl = f"let mut bump: Bump = Bump::new();\n{{ {hd}{href}; let x = {pexpr}; touch(&x); }}\n{inval}"
            yield (f"{rn}__bump__{pn}", mf, ctl)
        if not pmut and pn not in ("claim", "bumpvec_itself", "any_stats"):
            for (rn, inval) in POOL_ROUTES:
                mf = f"let mut pool: BumpPool = BumpPool::new();\nlet x = {{ let g = pool.get(); let h = &*g; {pexpr} }};\n{inval}\ntouch(&x);"
                # control: allocations outlive the guard (that is the pool's contract) but not the reset
                ctl = f"let mut pool: BumpPool = BumpPool::new();\n{{ let x = {{ let g = pool.get(); let h = &*g; {pexpr} }};\ntouch(&x); }}\n{inval}"
                yield (f"{rn}__pool__{pn}", mf, ctl)
        if pmut and pn not in ("scope_guard", "by_value"):
            for (rn, inval) in POOL_ROUTES:
                mf = f"let mut pool: BumpPool = BumpPool::new();\nlet x = {{ let mut g = pool.get(); let mut h = &mut *g; {pexpr} }};\n{inval}\ntouch(&x);"
                ctl = f"let mut pool: BumpPool = BumpPool::new();\n{{ let x = {{ let mut g = pool.get(); let mut h = &mut *g; {pexpr} }};\ntouch(&x); }}\n{inval}"
                yield (f"{rn}__pool__{pn}", mf, ctl)


# trait class (E0277): Send / Sync
TRAIT_PROGRAMS = [
    ("R11_move_notsend_bump_into_thread",
     "use std::rc::Rc;\n#[derive(Clone, Default)] struct NotSend(Rc<()>);\nunsafe impl bump_scope::alloc::Allocator for NotSend {\n fn allocate(&self, l: Layout) -> Result<core::ptr::NonNull<[u8]>, bump_scope::alloc::AllocError> { Global.allocate(l) }\n unsafe fn deallocate(&self, p: core::ptr::NonNull<u8>, l: Layout) { unsafe { Global.deallocate(p, l) } }\n}\npub fn f() { let bump: Bump<NotSend> = Bump::new_in(NotSend::default()); std::thread::spawn(move || { touch(&bump); }).join().unwrap(); }",
     "pub fn f() { let bump: Bump<Global> = Bump::new(); std::thread::spawn(move || { touch(&bump); }).join().unwrap(); }"),
    ("R11_share_bump_ref_across_threads",
     "pub fn f() { let bump: Bump = Bump::new(); std::thread::scope(|s| { s.spawn(|| { touch(&bump.alloc(1u8)); }); }); }",
     "pub fn f() { let pool: BumpPool = BumpPool::new(); std::thread::scope(|s| { s.spawn(|| { let g = pool.get(); touch(&g.alloc(1u8)); }); }); }"),
    ("R11_share_scope_ref_across_threads",
     "pub fn f() { let mut bump: Bump = Bump::new(); bump.scoped(|sc| { let sc = &*sc; std::thread::scope(|s| { s.spawn(|| { touch(&sc.alloc(1u8)); }); }); }); }",
     "pub fn f() { let mut bump: Bump = Bump::new(); bump.scoped(|sc| { let x = sc.alloc(1u8); let r: &u8 = &x; std::thread::scope(|s| { s.spawn(|| { touch(r); }); }); }); }"),
    ("R11_share_notsend_pool",
     "use std::rc::Rc;\n#[derive(Clone, Default)] struct NotSend(Rc<()>);\nunsafe impl bump_scope::alloc::Allocator for NotSend {\n fn allocate(&self, l: Layout) -> Result<core::ptr::NonNull<[u8]>, bump_scope::alloc::AllocError> { Global.allocate(l) }\n unsafe fn deallocate(&self, p: core::ptr::NonNull<u8>, l: Layout) { unsafe { Global.deallocate(p, l) } }\n}\npub fn f() { let pool: BumpPool<NotSend> = BumpPool::new(); std::thread::scope(|s| { s.spawn(|| { let g = pool.get(); touch(&g.alloc(1u8)); }); }); }",
     "pub fn f() { let pool: BumpPool<Global> = BumpPool::new(); std::thread::scope(|s| { s.spawn(|| { let g = pool.get(); touch(&g.alloc(1u8)); }); }); }"),
    ("R11_send_boxed_value_of_notsend_type",
     "pub fn f() { let bump: Bump = Bump::new(); let b = bump.alloc(std::rc::Rc::new(1)); std::thread::scope(|s| { s.spawn(move || { touch(&b); }); }); }",
     "pub fn f() { let bump: Bump = Bump::new(); let b = bump.alloc(1u32); std::thread::scope(|s| { s.spawn(move || { touch(&b); }); }); }"),
]


def settings_table():
    """(id, program, must_fail) for with_settings / borrow_with_settings / borrow_mut_with_settings on
    Bump and BumpScope; expectation from the documentation ('fails to compile if ...')."""
    out = []
    S = lambda ma, up, ga, cl: f"BumpSettings<{ma}, {str(up).lower()}, {str(ga).lower()}, {str(cl).lower()}>"
    base = dict(ma=4, up=True, ga=True, cl=True)
    variants = []
    for ma in (1, 4, 16):
        for up in (True, False):
            for ga in (True, False):
                for cl in (True, False):
                    variants.append(dict(ma=ma, up=up, ga=ga, cl=cl))
    for frm in (dict(ma=4, up=True, ga=True, cl=True), dict(ma=4, up=True, ga=False, cl=True), dict(ma=4, up=False, ga=True, cl=False)):
        for to in variants:
            fs, ts = S(**frm), S(**to)
            ctor = "Bump::new()" if frm["ga"] else "Bump::unallocated()"
            # Bump::with_settings: fails iff UP differs
            out.append((f"bump_with_settings__{fs}__{ts}".replace(" ", ""),
                        f"fn main() {{ let b: Bump<Global, {fs}> = Bump::new(); let c: Bump<Global, {ts}> = b.with_settings(); touch(&c); }}",
                        to["up"] != frm["up"]))
            # Bump::borrow_with_settings: MIN_ALIGN !=, UP !=, CLAIMABLE !=, GA increased
            out.append((f"bump_borrow_with_settings__{fs}__{ts}".replace(" ", ""),
                        f"fn main() {{ let b: Bump<Global, {fs}> = Bump::new(); let c: &Bump<Global, {ts}> = b.borrow_with_settings(); touch(c); }}",
                        to["ma"] != frm["ma"] or to["up"] != frm["up"] or to["cl"] != frm["cl"] or (to["ga"] and not frm["ga"])))
            # Bump::borrow_mut_with_settings: MIN_ALIGN <, UP !=, GA !=, CLAIMABLE !=
            out.append((f"bump_borrow_mut_with_settings__{fs}__{ts}".replace(" ", ""),
                        f"fn main() {{ let mut b: Bump<Global, {fs}> = Bump::new(); let c: &mut Bump<Global, {ts}> = b.borrow_mut_with_settings(); touch(c); }}",
                        to["ma"] < frm["ma"] or to["up"] != frm["up"] or to["cl"] != frm["cl"] or to["ga"] != frm["ga"]))
            # BumpScope::with_settings (by value): UP !=, MIN_ALIGN <
            out.append((f"scope_with_settings__{fs}__{ts}".replace(" ", ""),
                        f"fn main() {{ let mut b: Bump<Global, {fs}> = Bump::new(); let s = b.as_mut_scope().by_value(); let c: BumpScope<Global, {ts}> = s.with_settings(); touch(&c); }}",
                        to["up"] != frm["up"] or to["ma"] < frm["ma"]))
            # BumpScope::borrow_with_settings
            out.append((f"scope_borrow_with_settings__{fs}__{ts}".replace(" ", ""),
                        f"fn main() {{ let b: Bump<Global, {fs}> = Bump::new(); let c: &BumpScope<Global, {ts}> = b.as_scope().borrow_with_settings(); touch(c); }}",
                        to["ma"] != frm["ma"] or to["up"] != frm["up"] or to["cl"] != frm["cl"] or (to["ga"] and not frm["ga"])))
            # BumpScope::borrow_mut_with_settings
            out.append((f"scope_borrow_mut_with_settings__{fs}__{ts}".replace(" ", ""),
                        f"fn main() {{ let mut b: Bump<Global, {fs}> = Bump::new(); let c: &mut BumpScope<Global, {ts}> = b.as_mut_scope().borrow_mut_with_settings(); touch(c); }}",
                        to["ma"] < frm["ma"] or to["up"] != frm["up"] or to["cl"] != frm["cl"] or to["ga"] != frm["ga"]))
    # claim requires CLAIMABLE
    out.append(("claim_on_unclaimable", "fn main() { let b: Bump<Global, BumpSettings<1, true, true, false>> = Bump::new(); let g = b.claim(); touch(&g); }", True))
    out.append(("claim_on_claimable", "fn main() { let b: Bump<Global, BumpSettings<1, true, true, true>> = Bump::new(); let g = b.claim(); touch(&g); }", False))
    return out


ACCEPT_CODES = {"E0499", "E0502", "E0505", "E0506", "E0515", "E0521", "E0597", "E0716", "E0373", "E0713", "E0503", "E0382", None}


def sh(cmd, cwd=None, env=None, timeout=3600):
    e = dict(os.environ)
    e["CARGO_NET_OFFLINE"] = "true"
    e["CARGO_TERM_COLOR"] = "never"
    if env:
        e.update(env)
    return subprocess.run(cmd, cwd=cwd, env=e, stdout=subprocess.PIPE, stderr=subprocess.PIPE, text=True, timeout=timeout)


def write_crate(d, name, lib_src=None, bins=None):
    os.makedirs(os.path.join(d, "src"), exist_ok=True)
    with open(os.path.join(d, "Cargo.toml"), "w") as f:
        f.write(f"[package]\nname = \"{name}\"\nversion = \"0.1.0\"\nedition = \"2024\"\n\n[dependencies]\nbump-scope = {{ path = \"{REPO}\" }}\n\n[workspace]\n")
    shutil.copy(os.path.join(REPO, "Cargo.lock"), os.path.join(d, "Cargo.lock"))
    if lib_src is not None:
        with open(os.path.join(d, "src", "lib.rs"), "w") as f:
            f.write(lib_src)
    for bn, src in (bins or {}).items():
        os.makedirs(os.path.join(d, "src", "bin"), exist_ok=True)
        with open(os.path.join(d, "src", "bin", bn + ".rs"), "w") as f:
            f.write(src)


def lib_of(bodies):
    """bodies: list of (id, body). returns (source, [(id, first_line, last_line)])"""
    lines = PRELUDE.split("\n")
    spans = []
    for i, (pid, body) in enumerate(bodies):
        start = len(lines) + 1
        lines.append(f"pub fn p{i}() {{ // {pid}")
        lines.extend(body.split("\n"))
        lines.append("}")
        spans.append((pid, start, len(lines)))
    return "\n".join(lines) + "\n", spans


def check_lib(d, target_dir):
    r = sh(["cargo", "check", "--offline", "--message-format=json", "--lib"], cwd=d, env={"CARGO_TARGET_DIR": target_dir})
    diags = []
    for line in r.stdout.splitlines():
        try:
            m = json.loads(line)
        except Exception:
            continue
        if m.get("reason") == "compiler-message" and m["message"].get("level") == "error":
            msg = m["message"]
            code = (msg.get("code") or {}).get("code")
            prim = [s for s in msg.get("spans", []) if s.get("is_primary")]
            ln = prim[0]["line_start"] if prim else None
            fn = prim[0]["file_name"] if prim else ""
            diags.append((code, ln, fn, msg.get("message", "")))
    return r.returncode, diags, r.stderr


def attribute(diags, spans):
    by = {}
    other = []
    for (code, ln, fn, text) in diags:
        hit = None
        if ln is not None and fn.endswith("lib.rs"):
            for (pid, a, b) in spans:
                if a <= ln <= b:
                    hit = pid
                    break
        if hit:
            by.setdefault(hit, []).append((code, text))
        elif "aborting due to" not in text:
            other.append((code, ln, fn, text))
    return by, other


def main(tier, seed, rest):
    t0 = time.time()
    shutil.rmtree(WORK, ignore_errors=True)
    os.makedirs(WORK, exist_ok=True)
    target_dir = os.path.join(WORK, "target")
    progs = list(gen_borrow_programs())
    # producers that are part of every quick run (the type-erasing stats conversions)
    pinned = ("__any_stats_from_stats", "__any_chunk_from_chunk", "__any_prev_iter_from_iter", "__any_next_iter_from_iter")
    always = [p for p in progs if p[0].endswith(pinned)]
    progs = [p for p in progs if not p[0].endswith(pinned)]
    always += list(gen_alias_programs()) + list(gen_two_alloc_programs()) + list(gen_foreign_scope_programs())
    total_grammar = len(progs) + len(always)
    rng = random.Random(seed)
    if tier != "thorough":
        # a seeded sample stratified by route; always the same size (the small R12 family is always in)
        rng.shuffle(progs)
        progs = progs[:1200]
    progs = progs + always
    progs.sort()
    violations = []
    generator_defects = []

    # ---- controls first: every control twin must compile
    controls = [(pid, c) for (pid, _m, c) in progs if c]
    csrc, cspans = lib_of(controls)
    cd = os.path.join(WORK, "controls")
    write_crate(cd, "c04_controls", lib_src=csrc)
    rc, cdiags, cerr = check_lib(cd, target_dir)
    cby, cother = attribute(cdiags, cspans)
    if cother:
        sys.stderr.write(f"controls crate has unattributable errors: {cother[:3]}\n{cerr[-2000:]}\n")
        print("C04: generator defect (controls crate), inconclusive")
        return 2
    bad_controls = set(cby)
    for pid in bad_controls:
        generator_defects.append((pid, cby[pid][0]))
    if len(bad_controls) > len(controls) // 10:
        sys.stderr.write(f"{len(bad_controls)} control twins fail to compile, e.g. {list(cby.items())[:3]}\n")
        print("C04: generator defect (too many failing controls), inconclusive")
        return 2

    # ---- must-fail bodies (borrow / lifetime class), excluding those whose control is broken
    mf = [(pid, m) for (pid, m, c) in progs if pid not in bad_controls]
    msrc, mspans = lib_of(mf)
    md = os.path.join(WORK, "mustfail")
    write_crate(md, "c04_mustfail", lib_src=msrc)
    rc, mdiags, merr = check_lib(md, target_dir)
    mby, mother = attribute(mdiags, mspans)
    typeck_codes = [d for d in mdiags if d[0] in ("E0277", "E0308", "E0599", "E0282", "E0283", "E0425", "E0433", "E0432")]
    if typeck_codes:
        sys.stderr.write(f"must-fail crate has type errors (generator defect): {typeck_codes[:3]}\n")
        print("C04: generator defect (type error in must-fail crate), inconclusive")
        return 2
    accepted = [pid for (pid, _a, _b) in mspans if pid not in mby]
    wrong_code = [(pid, mby[pid]) for pid in mby if not any(c in ACCEPT_CODES for (c, _t) in mby[pid])]
    os.makedirs(os.path.join(VERIF, "replays"), exist_ok=True)
    bodies = dict(mf)
    # re-compile accepted bodies alone (rule out masking)
    for pid in accepted:
        single, sspans = lib_of([(pid, bodies[pid])])
        sd = os.path.join(WORK, "single")
        shutil.rmtree(sd, ignore_errors=True)
        write_crate(sd, "c04_single", lib_src=single)
        rc1, d1, e1 = check_lib(sd, target_dir)
        if not d1:
            path = os.path.join(VERIF, "replays", f"C04-{seed}-{hashlib.md5(pid.encode()).hexdigest()[:10]}.rs")
            open(path, "w").write(f"// must not compile: {pid}\n" + single)
            violations.append((pid, path))
    for (pid, ds) in wrong_code:
        generator_defects.append((pid, ds[0]))

    # ---- trait class: one crate per program
    trait_results = []

    def run_trait(item):
        name, bad, good = item
        out = []
        for kind, src in (("must_fail", bad), ("control", good)):
            d = os.path.join(WORK, f"t_{name}_{kind}")
            write_crate(d, f"t_{kind}", lib_src=PRELUDE + src + "\n")
            rc, diags, err = check_lib(d, target_dir + "_t")
            out.append((name, kind, [c for (c, *_r) in diags], src))
        return out

    with ThreadPoolExecutor(max_workers=4) as ex:
        for res in ex.map(run_trait, TRAIT_PROGRAMS):
            trait_results.extend(res)
    n_trait = 0
    for (name, kind, codes, src) in trait_results:
        n_trait += 1
        if kind == "control" and codes:
            generator_defects.append((name + "/control", (codes[0], "control fails")))
        if kind == "must_fail":
            if not codes:
                path = os.path.join(VERIF, "replays", f"C04-{seed}-{name}.rs")
                open(path, "w").write(f"// must not compile: {name}\n" + PRELUDE + src)
                violations.append((name, path))
            elif "E0277" not in codes:
                generator_defects.append((name, (codes[0], "unexpected error class")))

    # ---- const-eval class: settings conversion table, one binary per program (errors only appear
    # when code is generated, and their spans point into core)
    table = settings_table()
    if tier != "thorough":
        rng2 = random.Random(seed + 1)
        mustf = [t for t in table if t[2]]
        okp = [t for t in table if not t[2]]
        rng2.shuffle(mustf)
        rng2.shuffle(okp)
        table = mustf[:70] + okp[:50]
    sd = os.path.join(WORK, "settings")
    bins = {f"s{i}": PRELUDE + src + "\n" for i, (pid, src, _mf) in enumerate(table)}
    write_crate(sd, "c04_settings", bins=bins)
    # build the dependency once, then every binary on its own
    sh(["cargo", "build", "--offline", "--bin", "s0"], cwd=sd, env={"CARGO_TARGET_DIR": target_dir + "_s"})

    def build_bin(i):
        r = sh(["cargo", "build", "--offline", "--message-format=json", "--bin", f"s{i}"], cwd=sd, env={"CARGO_TARGET_DIR": target_dir + "_s"})
        codes = []
        for line in r.stdout.splitlines():
            try:
                m = json.loads(line)
            except Exception:
                continue
            if m.get("reason") == "compiler-message" and m["message"].get("level") == "error":
                codes.append((m["message"].get("code") or {}).get("code"))
        return i, r.returncode, codes

    settings_results = []
    with ThreadPoolExecutor(max_workers=8) as ex:
        for res in ex.map(build_bin, range(len(table))):
            settings_results.append(res)
    n_settings_fail = 0
    for (i, rc, codes) in settings_results:
        pid, src, must_fail = table[i]
        if must_fail:
            n_settings_fail += 1
            if rc == 0:
                path = os.path.join(VERIF, "replays", f"C04-{seed}-settings-{hashlib.md5(pid.encode()).hexdigest()[:10]}.rs")
                open(path, "w").write(f"// must not compile (documented: fails to compile): {pid}\n" + PRELUDE + src)
                violations.append((pid, path))
        else:
            if rc != 0:
                # documented as allowed but rejected: the corpus' expectation table or the docs are off
                generator_defects.append((pid, (codes[0] if codes else None, "allowed conversion rejected")))

    n_mustfail = len(mf) + len(TRAIT_PROGRAMS) + n_settings_fail
    evaluations = len(mf) + len(controls) + n_trait + len(table)
    distinct = (len(mf) - len(accepted)) + sum(1 for (n, k, c, s) in trait_results if k == "must_fail" and c) + sum(1 for (i, rc, codes) in settings_results if table[i][2] and rc != 0)
    samples = []
    for pid in [mf[0][0], mf[len(mf) // 2][0], mf[-1][0]]:
        samples.append({"id": pid, "program": bodies[pid], "verdict": [c for (c, _t) in mby.get(pid, [])]})
    samples.append({"id": table[0][0], "program": table[0][1], "must_fail": table[0][2]})
    code_hist = {}
    for pid, ds in mby.items():
        k = str(ds[0][0])
        code_hist[k] = code_hist.get(k, 0) + 1
    ev = {
        "property_id": "C04", "tier": "thorough" if tier == "thorough" else "quick", "seed": seed, "level": "exploration",
        "coverage": {
            "evaluations": evaluations,
            "distinct_nontrivial": distinct,
            "rule": "grammar: producer (49 allocation-producing calls incl. collections' into_* and stats/allocator/claim/scope_guard/by_value) x handle (scope, claim guard, 2 trait objects, WithoutDealloc, WithoutShrink, owned Bump, pool guard) x escape route (return from scoped / scoped_aligned / claim().scoped / aligned+scoped, outer variable, guard drop, second scope(), guard.reset(), Bump::reset / reset_to_start / drop / move / with_settings / into_raw, BumpPool::reset / reset_to_start / drop / bumps()); 5 Send/Sync programs; settings-conversion table (6 conversion functions x 3 source x 24 target settings, expectation from the documentation) + claim on a non-claimable arena. Every must-fail program uses the escaped value after the invalidation point. non-trivial = a must-fail program that the compiler rejected with a borrow/lifetime/trait/const-eval error inside its own body and whose control twin compiles; distinct by (route, handle, producer) id",
            "samples": samples,
            "grammar_size": total_grammar,
            "must_fail_programs": n_mustfail,
            "controls": len(controls),
            "controls_rejected_generator_defects": len(bad_controls),
            "error_code_histogram": code_hist,
            "generator_defects": [str(g) for g in generator_defects[:20]],
            "exhaustive": tier == "thorough",
        },
        "assumptions": ["rustc (stable toolchain of this image) is the oracle", "nightly-only relaxations (may_dangle) are not enabled", "the grammar is finite: unsound-but-accepted programs outside it are not found"],
        "wall_s": time.time() - t0,
        "violations": len(violations),
    }
    os.makedirs(os.path.join(VERIF, "evidence"), exist_ok=True)
    json.dump(ev, open(os.path.join(VERIF, "evidence", "C04.json"), "w"), indent=1)
    # a listed finding is keyed by the exact program id; anything else that is accepted is a violation
    known = {pid: k for k in known_findings() for pid in k.get("programs", [])}
    seen_known = {}
    new_violations = []
    for (pid, path) in violations:
        if pid in known:
            seen_known.setdefault(known[pid]["signature"], (known[pid], []))[1].append(pid)
        else:
            new_violations.append((pid, path))
    for sig, (k, pids) in seen_known.items():
        print(f"KNOWN-FINDING: property=C04 {k.get('what', sig)} [accepted programs: {', '.join(sorted(pids))}]")
    ev["known_findings_seen"] = {sig: sorted(p) for sig, (k, p) in seen_known.items()}
    ev["violations"] = len(new_violations)
    json.dump(ev, open(os.path.join(VERIF, "evidence", "C04.json"), "w"), indent=1)
    for (pid, path) in new_violations:
        print(f"accepted although it must not compile: {pid}")
        print(f"VIOLATION property=C04 replay={path}")
    if new_violations:
        return 1
    if generator_defects:
        sys.stderr.write(f"C04: {len(generator_defects)} generator defect(s) (excluded pairs), e.g. {generator_defects[:5]}\n")
        if len(generator_defects) > 25:
            print("C04: too many generator defects: inconclusive")
            return 2
    print(f"C04 {tier}: {evaluations} programs ({n_mustfail} must-fail, {len(violations)} accepted - all of them listed known findings; {len(controls)} controls), {time.time() - t0:.1f}s, no new violation")
    return 0


def replay(path):
    src = open(path).read()
    d = os.path.join(WORK, "replay")
    shutil.rmtree(d, ignore_errors=True)
    is_bin = "fn main()" in src
    if is_bin:
        write_crate(d, "c04_replay", bins={"r": src})
        r = sh(["cargo", "build", "--offline", "--bin", "r"], cwd=d, env={"CARGO_TARGET_DIR": os.path.join(WORK, "target_r")})
    else:
        write_crate(d, "c04_replay", lib_src=src)
        r = sh(["cargo", "check", "--offline", "--lib"], cwd=d, env={"CARGO_TARGET_DIR": os.path.join(WORK, "target_r")})
    if r.returncode == 0:
        print(f"VIOLATION property=C04 replay={path}")
        return 1
    print(f"replay {path}: rejected by the compiler, property C04 held")
    return 0


if __name__ == "__main__":
    if len(sys.argv) > 2 and sys.argv[1] == "--replay":
        sys.exit(replay(sys.argv[2]))
    sys.exit(main(sys.argv[1] if len(sys.argv) > 1 else "quick", int(os.environ.get("VERIF_SEED", "0")), []))
