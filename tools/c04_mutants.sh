#!/bin/bash
# sensitivity of the C04 corpus: apply signature mutants to a scratch worktree and run the corpus against it
set -u
W=/tmp/c04mut
rm -rf $W; git -C /repo worktree prune; git -C /repo worktree add --detach $W/repo HEAD >/dev/null 2>&1
run() { name=$1; file=$2; old=$3; new=$4
  git -C $W/repo checkout -- . 
  python3 - "$W/repo/$file" "$old" "$new" <<'PY'
import sys
p,old,new=sys.argv[1:4]; s=open(p).read()
assert old in s, "pattern not found: "+old
open(p,'w').write(s.replace(old,new,1))
PY
  (cd $W/repo && cargo check --offline -q 2>&1 | grep -E "^error" | head -3)
  out=$(VERIF_REPO=$W/repo VERIF_SEED=3 python3 /verif/progs/c04.py quick 2>&1 | grep -E "VIOLATION|no violation|inconclusive" | head -2)
  echo "== $name: $out"
}
run guard_scope_lifetime src/bump_scope_guard.rs "pub fn scope(&mut self) -> &mut BumpScope<'_, A, S> {" "pub fn scope(&mut self) -> &mut BumpScope<'a, A, S> {"
run bump_stats_static src/bump.rs "pub fn stats(&self) -> Stats<'_, A, S> {" "pub fn stats(&self) -> Stats<'static, A, S> {"
run send_without_bound src/bump.rs "    A: Send + Allocator,
    S: BumpAllocatorSettings,
{
}" "    A: Allocator,
    S: BumpAllocatorSettings,
{
}"
run borrow_settings_assert_removed src/raw_bump.rs "            assert!(
                NewS::MIN_ALIGN == S::MIN_ALIGN,
                \"can't change minimum alignment using \`Bump(Scope)::borrow_with_settings\`\"
            );" ""
run pool_deref_static src/bump_pool.rs "    type Target = BumpScope<'a, A, S>;

    #[inline(always)]
    fn deref(&self) -> &Self::Target {" "    type Target = BumpScope<'static, A, S>;

    #[inline(always)]
    fn deref(&self) -> &Self::Target {"
git -C /repo worktree remove --force $W/repo; rm -rf $W
