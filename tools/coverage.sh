#!/bin/bash
# Which parts of /repo/src do the quick checks execute? (development aid, not a registered check)
# Builds a coverage-instrumented copy of the harness with the nightly toolchain under /tmp/cov, runs every
# property's quick stages with a reduced case count, and lists the functions of /repo/src that were never
# entered. usage: tools/coverage.sh [cases-per-stage=30000]
set -u
N=${1:-6000}
W=/tmp/cov
BIN=$W/target/relassert/vcheck
TOOLS=$(dirname "$(rustup +nightly which rustc)")/../lib/rustlib/x86_64-unknown-linux-gnu/bin
mkdir -p $W/prof $W/verif/replays $W/verif/evidence
if [ ! -x $BIN ]; then
    (cd /verif/harness && CARGO_NET_OFFLINE=true RUSTFLAGS="-C instrument-coverage" CARGO_TARGET_DIR=$W/target cargo +nightly build --offline --profile relassert -p vcheck --bin vcheck) || exit 2
fi
rm -f $W/prof/*.profraw
# one single-threaded process per property, all in parallel (the coverage counters are shared memory:
# 16 threads in one process spend their time on cache-line ping-pong)
for p in C01 C02 C03 C05 C06 C07 C08 C09 C10 C11 C12 C13 C14 C15 C16 C17 C18 C19; do
    n=$N
    [ $p = C19 ] && n=300
    (cd $W/verif && VERIF_DIR=$W/verif LLVM_PROFILE_FILE=$W/prof/$p-%p.profraw $BIN $p quick --cases $n --threads 1 2>&1 | tail -1) &
done
wait
$TOOLS/llvm-profdata merge -sparse $W/prof/*.profraw -o $W/merged.profdata || exit 2
$TOOLS/llvm-cov export -format=lcov --instr-profile=$W/merged.profdata $BIN --sources /repo/src > $W/cov.lcov 2>/dev/null
python3 /verif/tools/coverage_report.py $W/cov.lcov
