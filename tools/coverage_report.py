#!/usr/bin/env python3
"""Reads an lcov file for /repo/src and lists, per source file, line coverage and the functions in
which no line was executed (by mapping uncovered lines to the enclosing `fn`)."""
import re
import sys
from collections import defaultdict

lcov = sys.argv[1]
files = {}
cur = None
for line in open(lcov):
    line = line.strip()
    if line.startswith("SF:"):
        cur = line[3:]
        files.setdefault(cur, {})
    elif line.startswith("DA:") and cur:
        ln, cnt = line[3:].split(",")[:2]
        d = files[cur]
        d[int(ln)] = max(d.get(int(ln), 0), int(cnt))

fn_re = re.compile(r"^\s*(pub(\([a-z]+\))?\s+)?(const\s+)?(unsafe\s+)?fn\s+([A-Za-z0-9_]+)")
tot_l = tot_c = 0
report = []
for f in sorted(files):
    if not f.startswith("/repo/src"):
        continue
    da = files[f]
    try:
        src = open(f).read().split("\n")
    except Exception:
        continue
    # enclosing fn for each line
    fn_at = {}
    name = None
    start = 0
    for i, l in enumerate(src, 1):
        m = fn_re.match(l)
        if m:
            name = (m.group(5), i, bool(m.group(1)))
        fn_at[i] = name
    per_fn = defaultdict(lambda: [0, 0])
    for ln, cnt in da.items():
        k = fn_at.get(ln)
        if k is None:
            continue
        per_fn[k][1] += 1
        if cnt > 0:
            per_fn[k][0] += 1
    lines = len(da)
    cov = sum(1 for c in da.values() if c > 0)
    tot_l += lines
    tot_c += cov
    dead = sorted([k for k, (c, n) in per_fn.items() if c == 0 and n > 0], key=lambda k: k[1])
    report.append((f, cov, lines, dead))

print(f"TOTAL line coverage of /repo/src by the quick checks: {tot_c}/{tot_l} = {100.0 * tot_c / max(tot_l, 1):.1f}%")
for f, cov, lines, dead in report:
    print(f"\n{f[len('/repo/'):]}: {cov}/{lines} lines ({100.0 * cov / max(lines, 1):.0f}%)")
    if dead:
        pubs = [f"{n}:{ln}" for (n, ln, p) in dead if p]
        priv = [f"{n}:{ln}" for (n, ln, p) in dead if not p]
        if pubs:
            print("   never entered (pub): " + ", ".join(pubs))
        if priv:
            print("   never entered (private / trait impl): " + ", ".join(priv))
