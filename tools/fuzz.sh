#!/bin/sh
# Coverage-guided campaign (libFuzzer, ASan) over all byte-driven engines; optional deep tier.
# usage: tools/fuzz.sh [seconds=300] [jobs=16]
# exit 0: nothing found; exit 1: "VIOLATION property=<id> replay=<artifact>" (replay: run the fuzz binary on the file);
# exit 2: could not build / run.
T=${1:-300}
J=${2:-16}
cd /verif/harness/fuzz || exit 2
CARGO_NET_OFFLINE=true cargo +nightly fuzz build engines >/dev/null 2>&1 || { echo "fuzz build failed"; exit 2; }
BIN=target/x86_64-unknown-linux-gnu/release/engines
mkdir -p corpus/engines artifacts/engines
find artifacts/engines -type f -delete
# starting corpus: the committed replay corpus of every property, prefixed with each engine selector
if [ -z "$(ls corpus/engines | head -1)" ]; then
    i=0
    for f in /verif/corpus/*/*.case; do
        [ -f "$f" ] || continue
        for sel in 0 2 5 9 11 13 14; do
            { printf "\\$(printf %03o $sel)"; cat "$f"; } > corpus/engines/seed-$i-$sel
        done
        i=$((i+1))
    done
fi
$BIN corpus/engines -fork=$J -max_total_time=$T -len_control=0 -max_len=800 -artifact_prefix=artifacts/engines/ -seed=${VERIF_SEED:-1} >/tmp/fuzz-campaign.log 2>&1
rc=0
for a in artifacts/engines/crash-* artifacts/engines/oom-* artifacts/engines/timeout-*; do
    [ -f "$a" ] || continue
    line=$($BIN "$a" 2>&1 | grep -m1 "ORACLE FAILURE")
    if [ -n "$line" ]; then
        id=$(echo "$line" | sed -E 's/^ORACLE FAILURE ([A-Za-z0-9]+).*/\1/')
        echo "VIOLATION property=$id replay=/verif/harness/fuzz/$a"
        echo "  $line" | cut -c1-400
        rc=1
    else
        case "$a" in
            *crash-*) echo "VIOLATION property=C01 replay=/verif/harness/fuzz/$a"; echo "  crash without oracle message (memory error under ASan)"; rc=1;;
            *) echo "inconclusive: $a (oom/timeout)";;
        esac
    fi
done
tail -3 /tmp/fuzz-campaign.log
exit $rc
