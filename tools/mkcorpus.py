#!/usr/bin/env python3
"""Rebuilds /verif/corpus/<prop>/ from the shrunk counterexamples kept next to the reverted repairs
(seeded/revert-*/replay/, written by `MUT_CASES=0 python3 tools/mutants.py seeded/revert-*`), and trims every
seeded/*/replay/ directory to its first case. Run after changing a generator (cases are byte strings that only
mean something to the decoder version that produced them)."""
import glob
import json
import os
import re
import shutil

V = os.path.dirname(os.path.dirname(os.path.abspath(__file__)))
for d in glob.glob(V + "/seeded/*/replay"):
    fs = sorted(os.listdir(d))
    cases = [f for f in fs if f.endswith(".case")]
    keep = set()
    if cases:
        keep = {cases[0], cases[0][:-5] + ".txt"}
    for f in fs:
        if f not in keep:
            os.remove(os.path.join(d, f))

NAMES = {
    "revert-C02-1a7c32b": "D1_without_shrink_overwrite",
    "revert-C10-790476d": "D2_any_stats_header",
    "revert-C18-3ad47c1": "D3_aligned_by_value",
    "revert-C06-5f44a6a": "D4_zst_drain",
    "revert-C09-70c1a8f": "D5a_boxed_str_split_off",
    "revert-C09-f060c42": "D5b_fixed_string_split_off",
    "revert-C14-a6e5940": "D6_dyn_claimed_abort",
    "revert-C06-c738ca8": "D7_zst_slice_fill",
}
shutil.rmtree(V + "/corpus", ignore_errors=True)
for sid, nm in NAMES.items():
    d = f"{V}/seeded/{sid}/replay"
    if not os.path.isdir(d):
        print("no replay for", sid)
        continue
    prop = json.load(open(f"{V}/seeded/{sid}/meta.json"))["property"]
    for f in os.listdir(d):
        m = re.search(r"-s(\d+)-(\d+)\.(case|txt)$", f)
        stage = m.group(1) if m else "0"
        ext = f.rsplit(".", 1)[1]
        os.makedirs(f"{V}/corpus/{prop}", exist_ok=True)
        shutil.copy(os.path.join(d, f), f"{V}/corpus/{prop}/{prop}-{nm}-s{stage}-0.{ext}")
print(sorted(glob.glob(V + "/corpus/*/*.case")))
