#!/usr/bin/env python3
"""Regenerates /verif/MANIFEST.json from the table below (keeps it valid at all times)."""
import json, os, subprocess

VERIF = os.path.dirname(os.path.dirname(os.path.abspath(__file__)))

# id -> (built?, engine, technique, level text, level note, design ref)
CHECKS = {
 "C11": (True, "D/pure-bump", "property-based testing: proptest-generated inputs to the tree's own bump_up/bump_down/bump_prepare_* (included by #[path]) against a u128 reference specification, every truthful hint vector, one-byte neighbour inputs; shrunk replay files",
         "No counterexample among the generated inputs (tens of millions per quick run, both a wrapping-arithmetic and an overflow-checking/debug-assertion build). The functions are pure, so generated-input search against an exact wide-integer oracle is a tight fit; the input space (~2^200) is sampled with generators aimed at the address-space ends, the dummy range and the fits/does-not-fit boundary.",
         "Trusted: rustc/std, proptest, the u128 reference in harness/src/pure.rs, 64-bit host. Inputs satisfy the preconditions asserted by BumpProps::debug_assert_valid.", "DESIGN.md section 3, C11"),
 "C12": (True, "D/pure-size (+ A/arena for the real-arena half once built)", "property-based testing: proptest-generated header layouts / requests / grants driven through the tree's own ChunkSizeConfig (included by #[path]) against a u128 specification, composed with the real bump functions on a mirrored chunk layout",
         "No counterexample among generated (header layout, direction, min chunk size, request, previous size, grant extra, grant address) tuples: sizes are multiples of 16 / header alignment, large enough, growth >= 2*prev-16, overflow -> None, and the request always fits the fresh chunk under every minimum alignment and hint vector.",
         "Trusted: rustc/std, proptest, the harness's mirror of NonDummyChunk::new's header placement, 64-bit host.", "DESIGN.md section 3, C12"),
}

ALL = ["C%02d" % i for i in range(1, 20)]

def main():
    checks = []
    na = []
    for pid in ALL:
        c = CHECKS.get(pid)
        if c and c[0]:
            checks.append({
                "property_id": pid,
                "quick_cmd": f"./check {pid} quick",
                "thorough_cmd": f"./check {pid} thorough",
                "evidence_file": f"/verif/evidence/{pid}.json",
                "replay_cmd_template": f"./check {pid} --replay {{path}}",
                "engine": c[1],
                "level_claimed": {"category": "exploration", "text": c[3], "design_ref": c[5]},
                "level_note": c[4],
                "technique": c[2],
            })
        else:
            na.append({"property_id": pid, "reason": "check not built yet (designed in DESIGN.md section 3; will be claimed once its engine is implemented and silent on the unchanged tree)"})
    try:
        src = json.load(open(os.path.join(VERIF, "tools", "source_commits.json")))
    except Exception:
        src = []
    m = {
        "version": 1,
        "setup_cmd": "./check build",
        "hooks": {
            "guard": "bump_scope_verif",
            "enable": "none needed: no source hooks exist (all observation points are public API or reached by #[path] inclusion); RUSTFLAGS='--cfg bump_scope_verif' is reserved",
            "baseline_off_cmd": "cd /repo && cargo test --workspace --no-fail-fast --offline",
            "source_commits": src,
            "add_only": True,
        },
        "engines": [
            {"name": "D/pure", "path": "harness/src/pure.rs", "serves_properties": ["C11", "C12"], "kind_free_text": "proptest over pure functions included from /repo by #[path], u128 reference"},
        ],
        "checks": checks,
        "not_applicable": na,
        "notes": "All checks are generated-input search (proptest, seeded by VERIF_SEED) against explicit oracles; ./check builds the harness against /repo's working tree (path dependency + #[path] includes) on every invocation. Exit 2 = inconclusive (build failure / watchdog / generator self-check), never a violation.",
    }
    json.dump(m, open(os.path.join(VERIF, "MANIFEST.json"), "w"), indent=1)

if __name__ == "__main__":
    main()
