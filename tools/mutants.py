#!/usr/bin/env python3
"""Sensitivity runs (DESIGN.md section 4): apply a hand-written mutant to a scratch copy of
/repo, build a scratch copy of the harness against it and run the named checks with a reduced
case count. Nothing under /repo or /verif is modified.

usage: mutants.py [name ...]      (default: all)
"""
import json, os, re, shutil, subprocess, sys, time

VERIF = os.path.dirname(os.path.dirname(os.path.abspath(__file__)))
WORK = os.environ.get("MUT_WORK", "/tmp/mut")

# name: (props to run, file, old, new)
M = {
 "C01_is_last_ge": (["C01", "C02", "C13"], "src/allocator_impl.rs",
    "(unsafe { ptr.add(layout.size()) }) == bump.chunk.get().pos()", "(unsafe { ptr.add(layout.size()) }) >= bump.chunk.get().pos()"),
 "C01_dealloc_down_too_far": (["C01", "C02", "C13"], "src/allocator_impl.rs",
    "            addr += layout.size();\n            chunk.set_pos_addr_and_align(addr);", "            addr += layout.size() + layout.align();\n            chunk.set_pos_addr_and_align(addr);"),
 "C01_shrink_up_half": (["C01", "C02"], "src/allocator_impl.rs",
    "            let end = old_ptr.addr().get() + new_layout.size();\n\n            // Up-aligning a pointer inside a chunk by `MIN_ALIGN` never overflows.", "            let end = old_ptr.addr().get() + new_layout.size() / 2;\n\n            // Up-aligning a pointer inside a chunk by `MIN_ALIGN` never overflows."),
 "C01_grow_inplace_past_end": (["C01", "C02", "C10"], "src/allocator_impl.rs",
    "                if new_layout.size() <= remaining {", "                if new_layout.size() <= remaining + 16 {"),
 "C01_prepared_rev_up_no_copy": (["C01", "C02"], "src/traits/bump_allocator_core.rs",
    "                src.copy_to(dst, layout.size());\n\n                chunk.set_pos_addr_and_align(dst_end.addr().get());", "                chunk.set_pos_addr_and_align(dst_end.addr().get());"),
 "C02_grow_zeroed_short": (["C02"], "src/allocator_impl.rs",
    "new_ptr.cast::<u8>().add(old_layout.size()).write_bytes(0, delta);", "new_ptr.cast::<u8>().add(old_layout.size()).write_bytes(0, delta.saturating_sub(1));"),
 "C02_shrink_unfit_copies_old": (["C02"], "src/allocator_impl.rs",
    "                if overlaps {\n                    old_ptr.copy_to(new_ptr, new_layout.size());\n                } else {\n                    old_ptr.copy_to_nonoverlapping(new_ptr, new_layout.size());\n                }\n\n                Ok(NonNull::slice_from_raw_parts(new_ptr, new_layout.size()))\n            } else {",
    "                if overlaps {\n                    old_ptr.copy_to(new_ptr, old_layout.size());\n                } else {\n                    old_ptr.copy_to_nonoverlapping(new_ptr, new_layout.size());\n                }\n\n                Ok(NonNull::slice_from_raw_parts(new_ptr, new_layout.size()))\n            } else {"),
 "C02_grow_copies_less": (["C02"], "src/allocator_impl.rs",
    "                let new_ptr = bump.alloc::<AllocError>(new_layout)?;\n                old_ptr.copy_to_nonoverlapping(new_ptr, old_layout.size());\n                Ok(NonNull::slice_from_raw_parts(new_ptr, new_layout.size()))\n            }\n        } else {",
    "                let new_ptr = bump.alloc::<AllocError>(new_layout)?;\n                old_ptr.copy_to_nonoverlapping(new_ptr, old_layout.size() & !7);\n                Ok(NonNull::slice_from_raw_parts(new_ptr, new_layout.size()))\n            }\n        } else {"),
 "C03_reset_to_keeps_chunk": (["C03", "C01"], "src/raw_bump.rs",
    "            checkpoint.reset_within_chunk();\n\n            self.chunk.set(RawChunk {\n                header: checkpoint.chunk.cast(),\n                marker: PhantomData,\n            });", "            checkpoint.reset_within_chunk();"),
 "C03_no_chunk_reset": (["C03", "C01"], "src/raw_bump.rs",
    "                    // We don't reset the chunk position when we leave a scope, so we need to do it here.\n                    chunk.reset();", "                    // We don't reset the chunk position when we leave a scope, so we need to do it here."),
 "C03_try_with_mut_no_reset": (["C03"], "src/bump_scope.rs",
    "                    let error = error.read();\n                    self.reset_to(checkpoint);\n                    error", "                    let error = error.read();\n                    error"),
 "C03_unallocated_checkpoint": (["C03"], "src/raw_bump.rs",
    "        if !S::GUARANTEED_ALLOCATED && checkpoint.chunk == ChunkHeader::unallocated::<S>() {\n            self.reset_to_start();\n            return;\n        }", "        if !S::GUARANTEED_ALLOCATED && checkpoint.chunk == ChunkHeader::unallocated::<S>() {\n            return;\n        }"),
 "C05_reset_forgets_prev": (["C05", "C10"], "src/raw_bump.rs",
    "        unsafe {\n            chunk.for_each_prev(|chunk| chunk.deallocate());\n\n            while let Some(next) = chunk.next() {", "        unsafe {\n            while let Some(next) = chunk.next() {"),
 "C05_drop_skips_next": (["C05"], "src/raw_bump.rs",
    "                chunk.for_each_prev(|chunk| chunk.deallocate());\n                chunk.for_each_next(|chunk| chunk.deallocate());\n                chunk.deallocate();", "                chunk.for_each_prev(|chunk| chunk.deallocate());\n                chunk.deallocate();"),
 "C05_layout_wrong_align": (["C05"], "src/raw_bump.rs",
    "unsafe { Layout::from_size_align_unchecked(self.size().get(), align_of::<ChunkHeader<A>>()) }", "unsafe { Layout::from_size_align_unchecked(self.size().get(), 16) }"),
 "C07_link_before_success": (["C07", "C10", "C05"], "src/raw_bump.rs",
    "                // there is no chunk that fits, we need a new chunk\n                chunk.append_for(*layout)", "                // there is no chunk that fits, we need a new chunk\n                self.chunk.set(RawChunk::UNALLOCATED_OR(chunk.raw));\n                chunk.append_for(*layout)"),
 "C07_reserve_swallows_error": (["C07"], "src/raw_bump.rs",
    "                chunk.append_for(layout).map(drop)\n", "                let _ = chunk.append_for::<E>(layout);\n                Ok(())\n"),
 "C10_no_realign_after_commit": (["C10", "C18", "C01"], "src/raw_bump.rs",
    "        if pos_align < S::MIN_ALIGN {\n            pos = align_pos(S::UP, S::MIN_ALIGN, pos);\n        }", "        let _ = pos_align;"),
 "C10_remaining_omits_next": (["C10"], "src/stats.rs",
    "        let mut sum = current.remaining();\n        current.iter_next().for_each(|chunk| sum += chunk.capacity());\n        sum\n    }\n\n    /// Returns an iterator from smallest", "        let sum = current.remaining();\n        sum\n    }\n\n    /// Returns an iterator from smallest"),
 "C10_any_allocated_wrong": (["C10"], "src/stats/any.rs",
    "        let mut sum = current.allocated();\n        current.iter_prev().for_each(|chunk| sum += chunk.capacity());\n        sum", "        let mut sum = current.allocated();\n        current.iter_prev().for_each(|chunk| sum += chunk.size());\n        sum"),
 "C12_no_padding": (["C12", "C01"], "src/chunk/size_config.rs",
    "let maximum_required_padding = layout.align().saturating_sub(chunk_header_layout.align());", "let maximum_required_padding = layout.align().saturating_sub(chunk_header_layout.align()) / 2;"),
 "C12_align_size_down_ignores_header": (["C12", "C05", "C10"], "src/chunk/size_config.rs",
    "                max(MIN_CHUNK_ALIGN, chunk_header_layout.align())\n            },\n        )", "                MIN_CHUNK_ALIGN\n            },\n        )"),
 "C12_growth_not_doubled": (["C12", "C10"], "src/raw_bump.rs",
    "let Some(size) = self.size().get().checked_mul(2) else {", "let Some(size) = self.size().get().checked_mul(1) else {"),
 "C13_dealloc_ignores_setting": (["C13"], "src/allocator_impl.rs",
    "    if !S::DEALLOCATES {\n        return;\n    }\n\n    unsafe {\n        // free allocated space if this is the last allocation", "    unsafe {\n        // free allocated space if this is the last allocation"),
 "C13_without_shrink_forwards": (["C13"], "src/traits/bump_allocator_typed.rs",
    None, None),
 "C13_no_reclaim_down": (["C13"], "src/allocator_impl.rs",
    "    } else {\n        ptr == bump.chunk.get().pos()\n    }", "    } else {\n        ptr == bump.chunk.get().pos() && layout.size() > 64\n    }"),
 "C14_no_reclaim_on_drop": (["C14"], "src/bump_claim_guard.rs",
    "        self.original.raw.reclaim(&self.claimant.raw);", "        if !std::thread::panicking() { self.original.raw.reclaim(&self.claimant.raw); }"),
 "C14_reserve_ok_when_claimed": (["C14"], "src/raw_bump.rs",
    "            ChunkClass::Claimed => Err(E::claimed()),\n            ChunkClass::Unallocated => {\n                let Ok(layout) = Layout::from_size_align(additional, 1) else {", "            ChunkClass::Claimed => Ok(()),\n            ChunkClass::Unallocated => {\n                let Ok(layout) = Layout::from_size_align(additional, 1) else {"),
 "C18_guard_aligns_inner": (["C18", "C10"], "src/bump_align_guard.rs",
    "            let addr = align_pos(S::UP, S::MIN_ALIGN, pos);", "            let addr = align_pos(S::UP, 1, pos);"),
 "C18_scoped_aligned_order": (["C18", "C03"], "src/traits/bump_allocator.rs",
    "        let mut guard = self.scope_guard();\n        let scope = guard.scope();\n        scope.raw.align::<NEW_MIN_ALIGN>();", "        self.as_mut_scope().raw.align::<NEW_MIN_ALIGN>();\n        let mut guard = self.scope_guard();\n        let scope = guard.scope();"),
 "C18_raise_no_align": (["C18", "C10"], "src/raw_bump.rs",
    "        if MinimumAlignment::VALUE > S::MIN_ALIGN {\n            // a dummy chunk is always aligned", "        if MinimumAlignment::VALUE > S::MIN_ALIGN && MinimumAlignment::VALUE < 16 {\n            // a dummy chunk is always aligned"),
 "C11_prepare_up_end_up": (["C11", "C01"], "src/bumping.rs",
    "    let end = down_align(end, layout.align());\n\n    debug_assert_aligned!(start, layout.align());\n    debug_assert_aligned!(end, layout.align());\n    debug_assert_ne!(start, 0);\n    debug_assert_ne!(end, 0);\n\n    Some(start..end)\n}\n\n/// Prepares a slice allocation by returning the start and end address for a maximally sized region\n/// where both start and end are aligned to `layout.align()`.\n#[inline(always)]\npub(crate) fn bump_prepare_down",
    "    let end = down_align(end, layout.align().min(8));\n\n    debug_assert_aligned!(start, layout.align());\n    debug_assert_ne!(start, 0);\n    debug_assert_ne!(end, 0);\n\n    Some(start..end)\n}\n\n/// Prepares a slice allocation by returning the start and end address for a maximally sized region\n/// where both start and end are aligned to `layout.align()`.\n#[inline(always)]\npub(crate) fn bump_prepare_down"),
 "C11_bump_down_fast_off_by_one": (["C11", "C01"], "src/bumping.rs",
    "    if size_is_const && layout.size() <= MIN_CHUNK_ALIGN {", "    if size_is_const && layout.size() <= MIN_CHUNK_ALIGN + 1 {"),
}

M["C06_map_in_place_guard_double_drop"] = (["C06"], "src/bump_box.rs",
    "                    // drop `T`s\n                    let drop_ptr = self.src.add(1);\n                    let drop_len = pointer::offset_from_unsigned(self.end, drop_ptr);\n                    ptr::slice_from_raw_parts_mut(drop_ptr, drop_len).drop_in_place();\n\n                    // drop `U`s\n                    let drop_ptr = self.ptr.cast::<U>().as_ptr();",
    "                    // drop `T`s\n                    let drop_ptr = self.src;\n                    let drop_len = pointer::offset_from_unsigned(self.end, drop_ptr);\n                    ptr::slice_from_raw_parts_mut(drop_ptr, drop_len).drop_in_place();\n\n                    // drop `U`s\n                    let drop_ptr = self.ptr.cast::<U>().as_ptr();")
M["C08_map_new_cap_by_align"] = (["C08", "C16", "C01"], "src/bump_vec.rs",
    "                let new_cap = (cap * T::SIZE) / U::SIZE;", "                let new_cap = (cap * T::SIZE) / U::ALIGN;")
M["C08_fixed_map_in_place_cap_not_rescaled"] = (["C08", "C16"], "src/fixed_bump_vec.rs",
    "                (capacity * T::SIZE) / U::SIZE\n", "                capacity\n")
M.pop("C13_without_shrink_forwards")
M.pop("C07_link_before_success")

def sh(cmd, **kw):
    return subprocess.run(cmd, shell=True, text=True, errors="replace", stdout=subprocess.PIPE, stderr=subprocess.STDOUT, **kw)

def setup():
    shutil.rmtree(WORK, ignore_errors=True)
    os.makedirs(WORK)
    r = sh(f"git -C /repo worktree prune; git -C /repo worktree add --detach {WORK}/repo HEAD")
    assert r.returncode == 0, r.stdout
    sh(f"rsync -a --exclude target --exclude fuzz/target {VERIF}/harness/ {WORK}/harness/")
    sh(f"grep -rl '/repo' {WORK}/harness --include=*.rs --include=*.toml | xargs sed -i 's#/repo#{WORK}/repo#g'")
    os.makedirs(f"{WORK}/verif/replays", exist_ok=True)
    os.makedirs(f"{WORK}/verif/evidence", exist_ok=True)

def run(name, cases):
    sh(f"git -C {WORK}/repo checkout -- .")
    if os.path.isdir(name):
        # a seeded change: <dir>/patch.diff + meta.json
        meta = json.load(open(os.path.join(name, "meta.json")))
        props = EXTRA_PROPS or [meta["property"]]
        r = sh(f"git -C {WORK}/repo apply {os.path.abspath(name)}/patch.diff")
        if r.returncode != 0:
            return {"name": name, "error": "patch does not apply", "log": r.stdout}
    else:
        props, f, old, new = M[name]
        props = EXTRA_PROPS or props
        p = f"{WORK}/repo/{f}"
        s = open(p).read()
        if old not in s:
            return {"name": name, "error": "pattern not found"}
        open(p, "w").write(s.replace(old, new, 1))
    t = time.time()
    env = dict(os.environ, CARGO_NET_OFFLINE="true", VERIF_DIR=f"{WORK}/verif", CARGO_TARGET_DIR=f"{WORK}/target")
    needs_release = any(x in ("C11",) for x in props)
    b = sh(f"cd {WORK}/harness && cargo build --offline --profile relassert -p vcheck --bin vcheck", env=env)
    if b.returncode != 0:
        return {"name": name, "error": "build failed", "log": b.stdout[-1500:]}
    res = {"name": name, "build_s": round(time.time() - t, 1), "results": {}}
    for prop in props:
        t = time.time()
        if prop == "C04":
            r = sh(f"VERIF_REPO={WORK}/repo VERIF_SEED=1 python3 {VERIF}/progs/c04.py quick", env=dict(os.environ))
            vio = [l for l in r.stdout.splitlines() if l.startswith("VIOLATION") or "inconclusive" in l]
            res["results"][prop] = {"rc": r.returncode, "s": round(time.time() - t, 1), "first": (vio[0][:300] if vio else r.stdout.strip().splitlines()[-1][:200] if r.stdout.strip() else "")}
            continue
        cs = f"--cases {cases}" if cases > 0 else ""
        r = sh(f"cd {WORK}/verif && {WORK}/target/relassert/vcheck {prop} quick {cs}", env=env)
        vio = [l for l in r.stdout.splitlines() if l.startswith("oracle:") or l.startswith("VIOLATION") or "self-check" in l]
        res["results"][prop] = {"rc": r.returncode, "s": round(time.time() - t, 1), "first": (vio[0][:300] if vio else r.stdout.strip().splitlines()[-1][:200] if r.stdout.strip() else "")}
    return res

EXTRA_PROPS = [x for x in os.environ.get("MUT_PROPS", "").split(",") if x]


def main():
    names = sys.argv[1:] or list(M)
    cases = int(os.environ.get("MUT_CASES", "40000"))
    setup()
    out = []
    for n in names:
        r = run(n, cases)
        out.append(r)
        print(json.dumps(r), flush=True)
        if os.path.isdir(n):
            rr = dict(r, name=os.path.basename(os.path.abspath(n)), cases=("registered quick counts" if cases == 0 else cases),
                      how="scratch worktree of /repo HEAD + patch.diff, harness copy built against it (tools/mutants.py), each listed check run with VERIF_SEED=0")
            json.dump(rr, open(os.path.join(n, "check_result.json"), "w"), indent=1)
            # keep the shrunk counterexample(s) next to the change
            rp = os.path.join(n, "replay")
            shutil.rmtree(rp, ignore_errors=True)
            files = sorted(os.listdir(f"{WORK}/verif/replays"))
            if files:
                os.makedirs(rp)
                for f in files[:6]:
                    shutil.copy(os.path.join(f"{WORK}/verif/replays", f), rp)
        shutil.rmtree(f"{WORK}/verif/replays", ignore_errors=True)
        os.makedirs(f"{WORK}/verif/replays", exist_ok=True)
    sh(f"git -C /repo worktree remove --force {WORK}/repo")
    shutil.rmtree(WORK, ignore_errors=True)
    caught = sum(1 for r in out if any(v["rc"] == 1 for v in r.get("results", {}).values()))
    print(f"SUMMARY caught {caught}/{len(out)}")

if __name__ == "__main__":
    main()
