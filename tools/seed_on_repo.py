#!/usr/bin/env python3
"""Run the registered quick check(s) against a seeded change applied to /repo itself (the brief's procedure:
git -C /repo apply, run, git -C /repo checkout -- .), using /verif/harness' own target directory (incremental
build) but a scratch VERIF_DIR, so evidence/ and replays/ of /verif are not touched. Nothing else may use /repo
meanwhile. usage: seed_on_repo.py seeded/<id> [...]   (env MUT_PROPS=C01,C02 overrides the property list)"""
import json, os, shutil, subprocess, sys, time
VERIF = os.path.dirname(os.path.dirname(os.path.abspath(__file__)))
SCR = "/tmp/lane3"

def sh(cmd, **kw):
    return subprocess.run(cmd, shell=True, text=True, errors="replace", stdout=subprocess.PIPE, stderr=subprocess.STDOUT, **kw)

for d in sys.argv[1:]:
    d = os.path.abspath(d)
    meta = json.load(open(os.path.join(d, "meta.json")))
    props = [x for x in os.environ.get("MUT_PROPS", "").split(",") if x] or [meta["property"]]
    assert sh("git -C /repo status --porcelain").stdout.strip() == "", "/repo is not clean"
    r = sh(f"git -C /repo apply {d}/patch.diff")
    res = {"name": os.path.basename(d), "results": {}, "cases": "registered quick counts",
           "how": "patch applied to /repo itself (tools/seed_on_repo.py), harness rebuilt incrementally, each listed check's binary run with VERIF_SEED=0 and a scratch VERIF_DIR; /repo restored with git checkout afterwards"}
    try:
        if r.returncode != 0:
            res["error"] = "patch does not apply"
        else:
            t = time.time()
            b = sh(f"cd {VERIF} && ./check build")
            res["build_s"] = round(time.time() - t, 1)
            if b.returncode != 0:
                res["error"] = "build failed"; res["log"] = b.stdout[-1500:]
            else:
                for prop in props:
                    shutil.rmtree(SCR, ignore_errors=True)
                    os.makedirs(SCR + "/replays"); os.makedirs(SCR + "/evidence")
                    shutil.copytree(os.path.join(VERIF, "corpus"), SCR + "/corpus")
                    t = time.time()
                    env = dict(os.environ, VERIF_DIR=SCR, VERIF_SEED="0")
                    rr = sh(f"cd {SCR} && {VERIF}/harness/target/relassert/vcheck {prop} quick", env=env)
                    vio = [l for l in rr.stdout.splitlines() if l.startswith("oracle:") or l.startswith("VIOLATION") or "self-check" in l]
                    res["results"][prop] = {"rc": rr.returncode, "s": round(time.time() - t, 1), "first": (vio[0][:300] if vio else (rr.stdout.strip().splitlines() or [""])[-1][:200])}
                    rp = os.path.join(d, "replay")
                    shutil.rmtree(rp, ignore_errors=True)
                    files = sorted(os.listdir(SCR + "/replays"))
                    if files:
                        os.makedirs(rp)
                        for f in files[:6]:
                            shutil.copy(os.path.join(SCR, "replays", f), rp)
    finally:
        sh("git -C /repo checkout -- .")
    json.dump(res, open(os.path.join(d, "check_result.json"), "w"), indent=1)
    print(json.dumps(res), flush=True)
shutil.rmtree(SCR, ignore_errors=True)
