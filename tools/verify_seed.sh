#!/bin/bash
# usage: verify_seed.sh <agent_dir> <seed_id> <property>
# Confirms a seeded change independently in a fresh worktree of /repo: patch applies, existing
# suite passes with it, demonstration fails with it and passes without it. Copies the artefacts
# to /verif/seeded/<seed_id>/ with a meta.json.
set -u
SRC=$1; ID=$2; PROP=$3
W=/tmp/vs/$ID
rm -rf $W; mkdir -p /tmp/vs; git -C /repo worktree prune
git -C /repo worktree add --detach $W HEAD >/dev/null 2>&1 || { echo "worktree failed"; exit 2; }
cp $SRC/tests/seeded_demo.rs $W/tests/seeded_demo_$ID.rs
cd $W
if ! git apply --check $SRC/patch.diff 2>/dev/null; then echo "PATCH DOES NOT APPLY"; git -C /repo worktree remove --force $W; exit 2; fi
git apply $SRC/patch.diff
export CARGO_NET_OFFLINE=true SUITE_FLAGS
demo_with=$(cargo test --offline --test seeded_demo_$ID 2>&1 | grep -E "^test result|error(\[|:)|signal|SIG" | head -3 | tr '\n' ' ')
mv tests/seeded_demo_$ID.rs /tmp/vs/demo_$ID.rs
# SUITE_FLAGS="--lib --bins --tests" restricts the run to the pinned 384 tests (no doc tests) when the machine is busy
suite=$(cargo test --workspace --no-fail-fast --offline ${SUITE_FLAGS:-} 2>&1 | grep -E "^test result" | awk '{p+=$4; f+=$6} END {print "passed",p,"failed",f}')
mv /tmp/vs/demo_$ID.rs tests/seeded_demo_$ID.rs
git apply -R $SRC/patch.diff
demo_without=$(cargo test --offline --test seeded_demo_$ID 2>&1 | grep -E "^test result|error(\[|:)" | head -3 | tr '\n' ' ')
echo "suite with change: $suite"
echo "demo with change: $demo_with"
echo "demo without change: $demo_without"
mkdir -p /verif/seeded/$ID
cp $SRC/patch.diff /verif/seeded/$ID/patch.diff
cp $SRC/tests/seeded_demo.rs /verif/seeded/$ID/seeded_demo.rs
cp $SRC/meta.txt /verif/seeded/$ID/agent_meta.txt 2>/dev/null
python3 - "$ID" "$PROP" "$suite" "$demo_with" "$demo_without" <<'PY'
import json,sys,os
i,p,s,w,wo=sys.argv[1:6]
m={"seed_id":i,"property":p,"needs_to_manifest":open(f"/verif/seeded/{i}/agent_meta.txt").read() if True else "",
   "confirmed":{"existing_suite_with_change":s,"demo_with_change":w,"demo_without_change":wo,
   "how":"fresh worktree of /repo HEAD under /tmp/vs; git apply patch.diff; cargo test --workspace --no-fail-fast --offline "+os.environ.get("SUITE_FLAGS","")+" (demo moved aside); cargo test --test seeded_demo with and without the patch"}}
json.dump(m,open(f"/verif/seeded/{i}/meta.json","w"),indent=1)
PY
cd /; git -C /repo worktree remove --force $W; rm -rf $W
