#!/bin/bash
# usage: verify_seed_example.sh <agent_dir> <seed_id> <property>
# Like verify_seed.sh, for seeded changes whose demonstration is a safe example program that must NOT
# compile (C04): examples/seeded_demo.rs builds (and misbehaves) with the change, is rejected without it.
set -u
SRC=$1; ID=$2; PROP=$3
W=/tmp/vs/$ID; rm -rf $W; mkdir -p /tmp/vs; git -C /repo worktree prune
git -C /repo worktree add --detach $W HEAD >/dev/null 2>&1 || { echo "worktree failed"; exit 2; }
cd $W; export CARGO_NET_OFFLINE=true
if ! git apply --check $SRC/patch.diff 2>/dev/null; then echo "PATCH DOES NOT APPLY"; git -C /repo worktree remove --force $W; exit 2; fi
git apply $SRC/patch.diff
suite=$(cargo test --workspace --no-fail-fast --offline ${SUITE_FLAGS:-} 2>&1 | grep -E "^test result" | awk '{p+=$4; f+=$6} END {print "passed",p,"failed",f}')
cp $SRC/examples/seeded_demo.rs examples/seeded_demo_x.rs
with=$(cargo run --offline --example seeded_demo_x 2>&1 | grep -E "panicked|error(\[|:)|Finished|Running" | head -4 | tr '\n' ' ')
git apply -R $SRC/patch.diff
without=$(cargo build --offline --example seeded_demo_x 2>&1 | grep -E "^error" | head -3 | tr '\n' ' ')
echo "suite with change: $suite"; echo "demo with change: $with"; echo "demo without change: $without"
mkdir -p /verif/seeded/$ID
cp $SRC/patch.diff /verif/seeded/$ID/patch.diff
cp $SRC/examples/seeded_demo.rs /verif/seeded/$ID/seeded_demo.rs
cp $SRC/meta.txt /verif/seeded/$ID/agent_meta.txt 2>/dev/null
python3 - "$ID" "$PROP" "$suite" "$with" "$without" <<'PY'
import json,sys
i,p,s,w,wo=sys.argv[1:6]
m={"seed_id":i,"property":p,"needs_to_manifest":open(f"/verif/seeded/{i}/agent_meta.txt").read(),
 "confirmed":{"existing_suite_with_change":s,"demo_with_change":"example builds and runs: "+w,"demo_without_change":"example is rejected by rustc: "+wo,
 "how":"fresh worktree of /repo HEAD under /tmp/vs; git apply patch.diff; cargo test --workspace --no-fail-fast --offline; the demonstration is a safe example program (examples/seeded_demo.rs) that must not compile: built and run with the patch, built without"}}
json.dump(m,open(f"/verif/seeded/{i}/meta.json","w"),indent=1)
PY
cd /; git -C /repo worktree remove --force $W; rm -rf $W
